(** C06 — the goBadgerDBIt wrapper: refuted at full strength (the end bound
    is enforced only by checkKey's [<=], Seek is not clamped to the range),
    proved under the two boolean guards. *)
From Coq Require Import String.
From Coq Require Import List NArith Bool Lia.
From C33 Require Import Lib.Harness Lib.Bytes Lib.OMap C06.Model C06.Spec C06.ProofsIter.
Import ListNotations.

(** guard 1: no stored key equals the (resolved, exclusive) end bound *)
Definition end_not_stored (m : store) (start : key) (end_ : option key) : bool :=
  match spec_end start end_ with
  | Some e => negb (mem e m)
  | None => true
  end.

(** guard 2: every Seek target is non-empty and inside [start, end) *)
Definition seek_ok (start : key) (e' : option key) (o : iop) : bool :=
  match o with
  | ISeek k => nonempty k && in_range (Some start) e' k
  | _ => true
  end.

Definition seeks_in_range (start : key) (end_ : option key) (iops : list iop) : bool :=
  forallb (seek_ok start (spec_end start end_)) iops.

(** iteration order on keys *)
Definition ord (rv : bool) (a b : key) : bool := if rv then bltb b a else bltb a b.

Fixpoint ds (rv : bool) (l : list entry) : Prop :=
  match l with
  | [] => True
  | x :: tl => Forall (fun y => ord rv (fst x) (fst y) = true) tl /\ ds rv tl
  end.

Lemma ds_sorted (m : store) : sorted m -> ds false m.
Proof.
  induction m as [|x m IH]; simpl; auto. intros [LB S]. split; auto.
  unfold lb_all in LB. rewrite Forall_forall in *. intros y Hy. apply bltb_lt. auto.
Qed.

Lemma ds_snoc rv a x : ds rv a -> (forall y, In y a -> ord rv (fst y) (fst x) = true) -> ds rv (a ++ [x]).
Proof.
  induction a as [|z a IH]; simpl.
  - intros _ _. split; [constructor|exact I].
  - intros [F D] H. split.
    + apply Forall_app. split; auto.
    + apply IH; auto.
Qed.

Lemma ds_rev (m : store) : sorted m -> ds true (rev m).
Proof.
  induction m as [|x m IH]; simpl; auto. intros [LB S].
  apply ds_snoc; auto. intros y Hy. apply in_rev in Hy. unfold ord. apply bltb_lt.
  eapply lb_all_In; eauto.
Qed.

Lemma ds_drop_until rv g l : ds rv l -> ds rv (drop_until g l).
Proof.
  induction l as [|x l IH]; simpl; auto. intros [F D]. destruct (g x); simpl; auto.
Qed.

Lemma drop_until_incl {A} (g : A -> bool) l : incl (drop_until g l) l.
Proof.
  induction l as [|x l IH]; simpl; [apply incl_refl|].
  destruct (g x); [apply incl_refl | apply incl_tl, IH].
Qed.

Lemma seek_pred_mono rv k x y :
  seek_pred rv k x = true -> ord rv (fst x) (fst y) = true -> seek_pred rv k y = true.
Proof.
  unfold seek_pred, ord. destruct rv; intros H1 H2.
  - apply bltb_bleb. eapply bltb_bleb_trans; eauto.
  - apply bltb_bleb. eapply bleb_bltb_trans; eauto.
Qed.

(** a predicate that is upward closed in iteration order holds on everything
    that [drop_until] keeps *)
Lemma drop_until_Forall rv (g : entry -> bool) l :
  (forall x y, g x = true -> ord rv (fst x) (fst y) = true -> g y = true) ->
  ds rv l -> Forall (fun x => g x = true) (drop_until g l).
Proof.
  intro M. induction l as [|x l IH]; simpl; [constructor|]. intros [F D].
  destruct (g x) eqn:G; [|auto]. constructor; auto.
  rewrite Forall_forall in *. intros y Hy. eapply M; eauto.
Qed.

Lemma drop_until_id {A} (g : A -> bool) l : Forall (fun x => g x = true) l -> drop_until g l = l.
Proof. destruct l as [|x l]; auto. intro F. inversion F; subst. simpl. rewrite H1. reflexivity. Qed.

Lemma filter_drop_until_comm rv (f g : entry -> bool) l :
  (forall x y, g x = true -> ord rv (fst x) (fst y) = true -> g y = true) ->
  ds rv l -> filter f (drop_until g l) = drop_until g (filter f l).
Proof.
  intro M. induction l as [|x l IH]; simpl; auto. intros [F D].
  destruct (g x) eqn:G.
  - simpl. destruct (f x).
    + simpl. rewrite G. reflexivity.
    + symmetry. apply drop_until_id. apply Forall_forall. intros y Hy.
      apply filter_In in Hy as [Hy _]. rewrite Forall_forall in F. eapply M; eauto.
  - rewrite (IH D). destruct (f x); simpl; [rewrite G|]; reflexivity.
Qed.

Lemma filter_drop_until_same {A} (f g : A -> bool) l :
  (forall x, In x l -> g x = false -> f x = false) -> filter f (drop_until g l) = filter f l.
Proof.
  induction l as [|x l IH]; simpl; auto. intro H.
  destruct (g x) eqn:G; [reflexivity|].
  rewrite (H x) by auto. apply IH. intros y Hy. apply H. auto.
Qed.

Lemma filter_none {A} (f : A -> bool) l : Forall (fun x => f x = false) l -> filter f l = [].
Proof.
  induction l as [|x l IH]; simpl; auto. intro F. inversion F; subst. rewrite H1. auto.
Qed.

Lemma opt_cases {A} (o : option A) : o = None \/ exists a, o = Some a.
Proof. destruct o; eauto. Qed.

Lemma bool_cases (b : bool) : b = true \/ b = false.
Proof. destruct b; auto. Qed.

Section Badger.
Variables (m : store) (start : key) (end_ : option key) (rv : bool).
Hypothesis Hm : sorted m.
Hypothesis Hguard : end_not_stored m start end_ = true.

Let e' := spec_end start end_.
Let all := if rv then rev m else m.
Let inr (x : entry) : bool := in_range (Some start) e' (fst x).
Let ck (x : entry) : bool := check_key start e' (fst x).
Let LSb := filter inr all.

(** entry side / exit side of the range in iteration order *)
Definition ent (x : entry) : bool :=
  if rv then match e' with Some e => bltb (fst x) e | None => true end
  else bleb start (fst x).
Definition ext (x : entry) : bool :=
  if rv then bleb start (fst x)
  else match e' with Some e => bltb (fst x) e | None => true end.

Lemma inr_ent_ext x : inr x = ent x && ext x.
Proof. unfold inr, in_range, ent, ext. destruct rv; auto. apply andb_comm. Qed.

Lemma all_in x : In x all -> In x m.
Proof. unfold all. destruct rv; auto. intro H. apply in_rev. exact H. Qed.

Lemma ds_all : ds rv all.
Proof. unfold all. destruct rv; [apply ds_rev | apply ds_sorted]; exact Hm. Qed.

Lemma all_length : length all = length m.
Proof. unfold all. destruct rv; [apply rev_length|reflexivity]. Qed.

Lemma LSb_spec : spec_list m start end_ rv = LSb.
Proof.
  unfold spec_list, spec_range, range_filter, filter_keys, LSb, all, inr.
  destruct rv; auto. rewrite filter_rev'. reflexivity.
Qed.

(** under guard 1, checkKey's [<= end] is the exclusive test on stored keys *)
Lemma ck_inr x : In x m -> ck x = inr x.
Proof.
  intro Hx. unfold ck, inr, check_key, in_range. f_equal.
  unfold end_not_stored in Hguard. fold e' in Hguard.
  destruct e' as [e|]; auto.
  rewrite bleb_lt_or_eq. destruct (beqb (fst x) e) eqn:E; [|apply orb_false_r].
  apply beqb_eq in E. exfalso.
  assert (M : mem e m = true).
  { apply mem_In. rewrite <- E. apply in_map. exact Hx. }
  rewrite M in Hguard. discriminate.
Qed.

Lemma ext_mono x y : ext x = false -> ord rv (fst x) (fst y) = true -> ext y = false.
Proof.
  unfold ext, ord. destruct rv.
  - intros H1 H2. destruct (bleb start (fst y)) eqn:B; auto.
    rewrite (bltb_bleb _ _ (bleb_bltb_trans _ _ _ B H2)) in H1. discriminate.
  - destruct e' as [e|]; [|discriminate]. intros H1 H2.
    destruct (bltb (fst y) e) eqn:B; auto.
    rewrite (bltb_trans _ _ _ H2 B) in H1. discriminate.
Qed.

(** in-range entries form a prefix of the list *)
Fixpoint pfx (l : list entry) : Prop :=
  match l with
  | [] => True
  | x :: tl => (inr x = false -> Forall (fun y => inr y = false) tl) /\ pfx tl
  end.

Lemma pfx_none l : Forall (fun y => inr y = false) l -> pfx l.
Proof.
  induction l as [|x l IH]; simpl; auto. intro F. inversion F; subst. split; auto.
Qed.

Lemma pfx_ent l : ds rv l -> Forall (fun x => ent x = true) l -> pfx l.
Proof.
  induction l as [|x l IH]; simpl; auto. intros [F D] E. inversion E; subst.
  split; auto. intro Hx. rewrite inr_ent_ext, H1 in Hx. simpl in Hx.
  rewrite Forall_forall in *. intros y Hy. rewrite inr_ent_ext.
  rewrite (ext_mono x y Hx (F y Hy)). apply andb_false_r.
Qed.

Definition RB (cur s : list entry) : Prop :=
  s = filter inr cur /\ pfx cur /\ incl cur all.

Definition mkb (cur : list entry) : bad_it := mk_bad_it all start e' rv cur.

Lemma obs_RB cur s : RB cur s ->
  mk_ires (bad_valid (mkb cur)) (bad_valid (mkb cur)) (bad_entry (mkb cur)) = spec_obs s.
Proof.
  intros [-> [P I]]. unfold bad_valid, bad_entry, mkb. simpl.
  destruct cur as [|x tl]; [reflexivity|]. simpl.
  fold (ck x). rewrite (ck_inr x) by (apply all_in, I; left; reflexivity).
  destruct (inr x) eqn:E; [reflexivity|].
  destruct P as [P _]. rewrite (filter_none inr tl (P E)). reflexivity.
Qed.

Lemma next_RB cur s : RB cur s -> RB (tl cur) (tl s).
Proof.
  intros [-> [P I]]. destruct cur as [|x tl]; [repeat split; auto|].
  simpl in *. destruct P as [P1 P2]. repeat split; auto.
  - destruct (inr x) eqn:E; [reflexivity|]. rewrite (filter_none inr tl (P1 eq_refl)). reflexivity.
  - eapply incl_tran; [|exact I]. apply incl_tl, incl_refl.
Qed.

(** Seek(k) of the library iterator for a non-empty k *)
Lemma b_seek_nonempty k : nonempty k = true -> b_seek rv all k = drop_until (seek_pred rv k) all.
Proof. destruct k; [discriminate|reflexivity]. Qed.

Lemma seek_RB k : nonempty k = true -> in_range (Some start) e' k = true ->
  RB (b_seek rv all k) (drop_until (seek_pred rv k) LSb).
Proof.
  intros NE IR. rewrite (b_seek_nonempty k NE). unfold RB, LSb.
  split; [|split].
  - symmetry. apply (filter_drop_until_comm rv); [apply seek_pred_mono | apply ds_all].
  - apply pfx_ent; [apply ds_drop_until, ds_all|].
    pose proof (drop_until_Forall rv (seek_pred rv k) all (seek_pred_mono rv k) ds_all) as F.
    rewrite Forall_forall in *. intros x Hx. specialize (F x Hx).
    unfold in_range in IR. apply andb_true_iff in IR as [I1 I2].
    unfold ent, seek_pred in *. destruct rv.
    + destruct e' as [e|]; auto. eapply bleb_bltb_trans; eauto.
    + eapply bleb_trans; eauto.
  - apply drop_until_incl.
Qed.

(** Rewind / the constructor: Seek(start) forward, Seek(end) reverse *)
Lemma rewind_RB : RB (b_seek rv all (bad_home rv start e')) LSb.
Proof.
  unfold RB, LSb. destruct (bad_home rv start e') as [|h0 h] eqn:Hh.
  - (* empty home: the library rewinds *)
    simpl. split; [reflexivity|]. split; [|apply incl_refl].
    unfold bad_home in Hh.
    destruct (bool_cases rv) as [Er|Er]; rewrite Er in Hh.
    + destruct (opt_cases e') as [Ee|[e Ee]]; rewrite Ee in Hh.
      2: { subst e. apply pfx_none. apply Forall_forall. intros y _.
           unfold inr, in_range. rewrite Ee. destruct (fst y); simpl; apply andb_false_r. }
      apply pfx_ent; [apply ds_all|]. apply Forall_forall. intros y _.
      unfold ent. rewrite Er, Ee. reflexivity.
    + apply pfx_ent; [apply ds_all|]. apply Forall_forall. intros y _.
      unfold ent. rewrite Er, Hh. apply bleb_nil_l.
  - rewrite <- Hh. rewrite b_seek_nonempty by (rewrite Hh; reflexivity).
    assert (Hent : forall x, In x all -> seek_pred rv (bad_home rv start e') x = ent x).
    { intros x Hx. unfold seek_pred, ent, bad_home. unfold bad_home in Hh.
      destruct (bool_cases rv) as [Er|Er]; rewrite Er; [|reflexivity]. rewrite Er in Hh.
      destruct (opt_cases e') as [Ee|[e Ee]]; rewrite Ee in Hh; [discriminate|]. rewrite Ee.
      pose proof (ck_inr x (all_in x Hx)) as C. unfold ck, inr, check_key, in_range in C.
      fold e' in C. rewrite Ee in C.
      destruct (bleb start (fst x)) eqn:B; simpl in C; auto.
      (* below start: compare directly *)
      rewrite bleb_lt_or_eq. destruct (beqb (fst x) e) eqn:E; [|apply orb_false_r].
      apply beqb_eq in E. exfalso.
      unfold end_not_stored in Hguard. fold e' in Hguard. rewrite Ee in Hguard.
      assert (M : mem e m = true).
      { apply mem_In. rewrite <- E. apply in_map. apply all_in. exact Hx. }
      rewrite M in Hguard. discriminate. }
    split; [|split].
    + symmetry. apply filter_drop_until_same. intros x Hx G. rewrite (Hent x Hx) in G.
      rewrite inr_ent_ext, G. reflexivity.
    + apply pfx_ent; [apply ds_drop_until, ds_all|].
      pose proof (drop_until_Forall rv _ all (seek_pred_mono rv (bad_home rv start e')) ds_all) as F.
      rewrite Forall_forall in *. intros x Hx. rewrite <- (Hent x); auto.
      apply (drop_until_incl _ _ x Hx).
    + apply drop_until_incl.
Qed.

Lemma bad_open_eq : bad_open m start end_ rv = mkb (b_seek rv all (bad_home rv start e')).
Proof. unfold bad_open, mkb. rewrite resolve_end_spec. reflexivity. Qed.

Definition ok_posb (cur : list entry) (p : spec_pos) : Prop :=
  match p with Some s => RB cur s | None => True end.

Lemma step_simb cur p o :
  ok_posb cur p -> (o = INext -> p <> None) -> seek_ok start e' o = true ->
  exists cur' s',
    it_step (ItB (mkb cur)) o = (ItB (mkb cur'), spec_obs s') /\
    spec_step rv LSb p o = Some s' /\ RB cur' s'.
Proof.
  intros Hp Hn Hs. destruct o as [|k|].
  - exists (b_seek rv all (bad_home rv start e')), LSb.
    pose proof rewind_RB as HR. split; [|split; auto].
    simpl. unfold bad_rewind, bad_set_cur. simpl. fold (mkb (b_seek rv all (bad_home rv start e'))).
    rewrite (obs_RB _ _ HR). reflexivity.
  - simpl in Hs. apply andb_true_iff in Hs as [NE IR].
    exists (b_seek rv all k), (drop_until (seek_pred rv k) LSb).
    pose proof (seek_RB k NE IR) as HR. split; [|split; auto].
    simpl. unfold bad_seek, bad_set_cur. simpl. fold (mkb (b_seek rv all k)).
    rewrite (obs_RB _ _ HR). reflexivity.
  - destruct p as [s|]; [|exfalso; apply Hn; auto]. simpl in Hp.
    exists (tl cur), (tl s). pose proof (next_RB _ _ Hp) as HR. split; [|split; auto].
    simpl. unfold bad_next, bad_set_cur. simpl. fold (mkb (tl cur)).
    rewrite (obs_RB _ _ HR). reflexivity.
Qed.

Lemma run_simb : forall iops cur s, RB cur s -> forallb (seek_ok start e') iops = true ->
  map Some (it_run (ItB (mkb cur)) iops) = spec_run rv LSb (Some s) iops.
Proof.
  induction iops as [|o iops IH]; intros cur s HR Hs; [reflexivity|].
  simpl in Hs. apply andb_true_iff in Hs as [Hs1 Hs2].
  destruct (step_simb cur (Some s) o HR) as [c' [s' [E1 [E2 HR']]]]; [discriminate|exact Hs1|].
  cbn [it_run]. rewrite E1. cbn [map spec_run]. rewrite E2. cbn [option_map].
  f_equal. apply IH; auto.
Qed.

Lemma run_simb_positioned iops cur : positioned iops = true ->
  forallb (seek_ok start e') iops = true ->
  map Some (it_run (ItB (mkb cur)) iops) = spec_run rv LSb None iops.
Proof.
  destruct iops as [|o iops]; [reflexivity|]. intros P Hs.
  simpl in Hs. apply andb_true_iff in Hs as [Hs1 Hs2].
  destruct (step_simb cur None o I) as [c' [s' [E1 [E2 HR']]]]; [intros ->; discriminate|exact Hs1|].
  cbn [it_run]. rewrite E1. cbn [map spec_run]. rewrite E2. cbn [option_map].
  f_equal. apply run_simb; auto.
Qed.

Lemma collect_simb : forall fuel cur s, RB cur s -> (length s < fuel)%nat ->
  it_collect_from fuel (ItB (mkb cur)) (spec_obs s) = s.
Proof.
  induction fuel as [|f IH]; intros cur s HR Hf; [lia|].
  destruct s as [|x s']; [reflexivity|].
  cbn [it_collect_from spec_obs].
  destruct (step_simb cur (Some (x :: s')) INext HR) as [c' [s2 [E1 [E2 HR']]]];
    [discriminate|reflexivity|].
  rewrite E1. simpl in E2. inversion E2; subst s2.
  rewrite IH; [destruct x; reflexivity | exact HR' | simpl in Hf; lia].
Qed.

Lemma badger_refines_sec iops : positioned iops = true -> seeks_in_range start end_ iops = true ->
  map Some (it_run (it_open BBadger m start end_ rv) iops) =
  spec_run rv (spec_list m start end_ rv) None iops.
Proof.
  intros P Hs. simpl it_open. rewrite bad_open_eq, LSb_spec.
  apply run_simb_positioned; auto.
Qed.

Lemma badger_collect_sec : it_collect BBadger m start end_ rv = spec_list m start end_ rv.
Proof.
  unfold it_collect. simpl it_open. rewrite bad_open_eq, LSb_spec.
  destruct (step_simb (b_seek rv all (bad_home rv start e')) None IRewind I) as [c' [s' [E1 [E2 HR]]]];
    [discriminate|reflexivity|].
  rewrite E1. simpl in E2. inversion E2; subst s'.
  apply collect_simb; [exact HR|].
  assert (length LSb <= length all)%nat by apply filter_length_le'.
  pose proof all_length.
  lia.
Qed.

End Badger.

Theorem badger_iter_refines_partial (m : store) start end_ rv iops :
  sorted m -> end_not_stored m start end_ = true ->
  positioned iops = true -> seeks_in_range start end_ iops = true ->
  map Some (it_run (it_open BBadger m start end_ rv) iops) =
  spec_run rv (spec_list m start end_ rv) None iops.
Proof. intros. apply badger_refines_sec; auto. Qed.

Theorem badger_iter_collect_partial (m : store) start end_ rv :
  sorted m -> end_not_stored m start end_ = true ->
  it_collect BBadger m start end_ rv = spec_list m start end_ rv.
Proof. intros. apply badger_collect_sec; auto. Qed.

(** * refutations (witnesses reproduced on the real backend by the harness) *)
Definition wit_store : store :=
  [(bs "a", bs "va"); (bs "a1", bs "va1"); (bs "a2", bs "va2"); (bs "b", bs "vb"); (bs "c", bs "vc")]%string.

Definition iter_collect_full (b : backend) : Prop :=
  forall (m : store) start end_ rv, sorted m ->
    it_collect b m start end_ rv = spec_list m start end_ rv.

Definition iter_refines_full (b : backend) : Prop :=
  forall (m : store) start end_ rv iops, sorted m -> positioned iops = true ->
    map Some (it_run (it_open b m start end_ rv) iops) =
    spec_run rv (spec_list m start end_ rv) None iops.

Lemma wit_sorted : sorted wit_store.
Proof. apply sortedb_iff. vm_compute. reflexivity. Qed.

Theorem badger_iter_collect_refuted : ~ iter_collect_full BBadger.
Proof.
  intro H. specialize (H wit_store (bs "a"%string) None false wit_sorted).
  vm_compute in H. discriminate.
Qed.

(** the same for an explicit range and the reverse direction *)
Theorem badger_iter_collect_refuted_range_rev :
  it_collect BBadger wit_store (bs "a"%string) (Some (bs "b"%string)) true <>
  spec_list wit_store (bs "a"%string) (Some (bs "b"%string)) true.
Proof. vm_compute. discriminate. Qed.

(** Seek below the range is not clamped (no stored key equals the end bound here) *)
Theorem badger_seek_refuted : ~ iter_refines_full BBadger.
Proof.
  intro H.
  specialize (H wit_store (bs "a1"%string) (Some (bs "bz"%string)) false [ISeek (bs "a"%string)] wit_sorted eq_refl).
  vm_compute in H. discriminate.
Qed.

(** the guards are satisfiable by non-trivial states *)
Example guard_example :
  end_not_stored wit_store (bs "a"%string) (Some (bs "az"%string)) = true /\
  seeks_in_range (bs "a"%string) (Some (bs "az"%string)) [IRewind; INext; ISeek (bs "a1"%string); INext] = true /\
  it_collect BBadger wit_store (bs "a"%string) (Some (bs "az"%string)) true =
    [(bs "a2", bs "va2"); (bs "a1", bs "va1"); (bs "a", bs "va")]%string.
Proof. vm_compute. repeat split. Qed.

(** hypotheses of the LevelDB/memdb theorems are satisfiable, non-trivially *)
Example ldb_example :
  sorted wit_store /\ not_badger BLdb = true /\
  positioned [ISeek (bs "a2"%string); INext; IRewind] = true /\
  it_collect BLdb wit_store (bs "a"%string) None true =
    [(bs "a2", bs "va2"); (bs "a1", bs "va1"); (bs "a", bs "va")]%string /\
  it_collect BMem wit_store (bs "a"%string) (Some (bs "b"%string)) false =
    [(bs "a", bs "va"); (bs "a1", bs "va1"); (bs "a2", bs "va2")]%string /\
  succ_prefix (bs "a"%string) <> Some empty_value.
Proof. split; [exact wit_sorted|]. vm_compute. repeat split; discriminate. Qed.
