(** C06 — the goLevelDBIt wrapper (LevelDB and memdb) refines the abstract
    iterator: a position in the list of in-range entries. *)
From Coq Require Import List NArith Bool Lia.
From C33 Require Import Lib.Harness Lib.Bytes Lib.OMap C06.Model C06.Spec.
Import ListNotations.

(** * list lemmas *)
Lemma drop_until_app_false {A} (f : A -> bool) a b :
  (forall x, In x a -> f x = false) -> drop_until f (a ++ b) = drop_until f b.
Proof.
  induction a as [|x a IH]; simpl; intro H; auto.
  rewrite (H x) by auto. apply IH. intros y Hy. apply H. auto.
Qed.

Lemma drop_until_hd_true {A} (f : A -> bool) x l : f x = true -> drop_until f (x :: l) = x :: l.
Proof. intro H. simpl. rewrite H. reflexivity. Qed.

Lemma drop_until_all_false {A} (f : A -> bool) l :
  (forall x, In x l -> f x = false) -> drop_until f l = [].
Proof.
  intro H. rewrite <- (app_nil_r l). rewrite drop_until_app_false by exact H. reflexivity.
Qed.

Lemma hd_drop_until {A} (f : A -> bool) l : hd_error (drop_until f l) = hd_error (filter f l).
Proof.
  induction l as [|x l IH]; simpl; auto. destruct (f x); simpl; auto.
Qed.

Lemma filter_length_le' {A} (f : A -> bool) l : (length (filter f l) <= length l)%nat.
Proof. induction l as [|x l IH]; simpl; [lia|]. destruct (f x); simpl; lia. Qed.

Definition nonempty {A} (l : list A) : bool := match l with [] => false | _ => true end.

(** * order facts *)
Lemma bleb_false_flip a b : bleb a b = false -> bleb b a = true.
Proof. intro H. destruct (bleb_total a b) as [E|E]; congruence. Qed.

Lemma bleb_false_bltb a b : bleb a b = false -> bltb b a = true.
Proof. intro H. rewrite bltb_nbleb, H. reflexivity. Qed.

Section Ldb.
Variables (L : list entry) (start : key) (end' : option key).
Hypothesis HL : sorted L.
Hypothesis Hck : forall e, In e L -> check_key start end' (fst e) = true.

Definition mkit (rv : bool) (c : lcur) : ldb_it := mk_ldb_it L start end' rv c.

Definition Rf (c : lcur) (s : list entry) : Prop :=
  match c with
  | LAt pre e post => L = rev pre ++ e :: post /\ s = e :: post
  | LEOI => s = []
  | LSOI => False
  end.

Definition Rr (c : lcur) (s : list entry) : Prop :=
  match c with
  | LAt pre e post => L = rev pre ++ e :: post /\ s = e :: pre
  | LSOI => s = []
  | LEOI => L = [] /\ s = []
  end.

Definition R (rv : bool) := if rv then Rr else Rf.

Lemma at_in pre e post : L = rev pre ++ e :: post -> In e L.
Proof. intros ->. apply in_or_app. right. left. reflexivity. Qed.

Lemma at_post_gt pre e post x : L = rev pre ++ e :: post -> In x post -> bltb (fst e) (fst x) = true.
Proof.
  intros E Hx. rewrite E in HL. apply sorted_app in HL as [_ [S _]].
  destruct S as [LB _]. apply bltb_lt. eapply lb_all_In; eauto.
Qed.

Lemma at_pre_lt pre e post x : L = rev pre ++ e :: post -> In x pre -> bltb (fst x) (fst e) = true.
Proof.
  intros E Hx. rewrite E in HL. apply sorted_app in HL as [_ [_ S]].
  apply bltb_lt. apply S; [apply in_rev in Hx; exact Hx | left; reflexivity].
Qed.

(** observation of a state *)
Lemma obs_R rv c s : R rv c s ->
  mk_ires (nonempty s) (ldb_valid (mkit rv c)) (ldb_entry (mkit rv c)) = spec_obs s /\
  l_valid c = nonempty s /\ ldb_valid (mkit rv c) = nonempty s.
Proof.
  intro H. destruct c as [| |pre e post].
  - assert (s = []) by (destruct rv; simpl in H; [exact H | contradiction]).
    subst s. repeat split.
  - assert (s = []) by (destruct rv; simpl in H; tauto).
    subst s. repeat split.
  - assert (G : exists s0, s = e :: s0 /\ In e L).
    { destruct rv; simpl in H; destruct H as [E ->]; eexists; split; eauto using at_in. }
    destruct G as [s0 [-> Hin]].
    unfold ldb_valid, ldb_entry, mkit. simpl. rewrite (Hck e Hin). repeat split.
Qed.

(** ** forward *)
Lemma rewind_f : Rf (l_first L) L.
Proof. destruct L as [|e post] eqn:E; simpl; auto. Qed.

Lemma next_f c s : Rf c s -> Rf (l_next L c) (tl s).
Proof.
  destruct c as [| |pre e post]; simpl; try contradiction.
  - intros ->. reflexivity.
  - intros [E ->]. destruct post as [|e' post']; simpl; auto.
    split; auto. rewrite E. rewrite <- app_assoc. reflexivity.
Qed.

Lemma seek_go_f k : forall rest pre,
  L = rev pre ++ rest -> (forall x, In x pre -> bleb k (fst x) = false) ->
  match l_seek_go k pre rest with
  | LAt pre' e post =>
      L = rev pre' ++ e :: post /\ drop_until (seek_pred false k) rest = e :: post /\
      bleb k (fst e) = true /\ (forall x, In x pre' -> bleb k (fst x) = false)
  | LEOI => drop_until (seek_pred false k) rest = [] /\ (forall x, In x L -> bleb k (fst x) = false)
  | LSOI => False
  end.
Proof.
  induction rest as [|e post IH]; intros pre E Hpre.
  - simpl. split; auto. intros x Hx. rewrite E, app_nil_r in Hx. apply in_rev in Hx. auto.
  - simpl. unfold seek_pred at 1. destruct (bleb k (fst e)) eqn:B.
    + repeat split; auto.
    + apply IH.
      * rewrite E. simpl. rewrite <- app_assoc. reflexivity.
      * intros x [<-|Hx]; auto.
Qed.

Lemma seek_f k :
  match l_seek L k with
  | LAt pre' e post =>
      L = rev pre' ++ e :: post /\ drop_until (seek_pred false k) L = e :: post /\
      bleb k (fst e) = true /\ (forall x, In x pre' -> bleb k (fst x) = false)
  | LEOI => drop_until (seek_pred false k) L = [] /\ (forall x, In x L -> bleb k (fst x) = false)
  | LSOI => False
  end.
Proof. apply (seek_go_f k L []); [reflexivity | intros x []]. Qed.

Lemma seek_f_R k : Rf (l_seek L k) (drop_until (seek_pred false k) L).
Proof.
  pose proof (seek_f k) as H. destruct (l_seek L k) as [| |pre e post]; simpl; try tauto.
Qed.

(** ** reverse *)
Lemma rewind_r : Rr (l_last L) (rev L).
Proof.
  unfold l_last. destruct (rev L) as [|e pre] eqn:E; simpl; auto.
  split; auto. rewrite <- (rev_involutive L), E. reflexivity.
Qed.

Lemma next_r c s : Rr c s -> Rr (l_prev L c) (tl s).
Proof.
  destruct c as [| |pre e post]; simpl.
  - intros ->. reflexivity.
  - intros [E ->]. unfold l_last. rewrite E. reflexivity.
  - intros [E ->]. destruct pre as [|e' pre']; simpl; auto.
    split; auto. rewrite E. simpl. rewrite <- app_assoc. reflexivity.
Qed.

Lemma rev_at pre e post : L = rev pre ++ e :: post -> rev L = rev post ++ e :: pre.
Proof.
  intros ->. rewrite rev_app_distr. simpl. rewrite rev_involutive, <- app_assoc. reflexivity.
Qed.

(** reverse Seek: library Seek, then step back unless it hit the key exactly *)
Lemma seek_r k :
  let c := l_seek L k in
  let dbkey := match l_cur c with Some e => fst e | None => [] end in
  Rr (if negb (beqb dbkey k) then l_prev L c else c) (drop_until (seek_pred true k) (rev L)).
Proof.
  intros c dbkey. subst dbkey c. pose proof (seek_f k) as H.
  destruct (l_seek L k) as [| |pre e post]; [contradiction| |].
  - (* every key is below k *)
    destruct H as [_ Hall]. simpl.
    assert (Hrev : forall x, In x (rev L) -> seek_pred true k x = true).
    { intros x Hx. apply in_rev in Hx. unfold seek_pred. apply bleb_false_flip. auto. }
    destruct (beqb [] k) eqn:Ek; simpl.
    + apply beqb_eq in Ek. subst k. destruct L as [|e0 l0]; [simpl; auto|].
      specialize (Hall e0 (or_introl eq_refl)). rewrite bleb_nil_l in Hall. discriminate.
    + pose proof rewind_r as RW. unfold l_last in *.
      destruct (rev L) as [|e pre] eqn:E; simpl in *; auto.
      rewrite (Hrev e) by auto. exact RW.
  - destruct H as [E [_ [Hge Hpre]]]. simpl.
    rewrite (rev_at _ _ _ E).
    assert (Hpost : forall x, In x (rev post) -> seek_pred true k x = false).
    { intros x Hx. apply in_rev in Hx. unfold seek_pred.
      rewrite bleb_nbltb. rewrite (bleb_bltb_trans k (fst e) (fst x)); auto.
      eapply at_post_gt; eauto. }
    rewrite drop_until_app_false by exact Hpost.
    destruct (beqb (fst e) k) eqn:Ek; simpl.
    + apply beqb_eq in Ek. unfold seek_pred. rewrite Ek, bleb_refl. split; auto.
    + assert (Hek : bleb (fst e) k = false).
      { destruct (bleb (fst e) k) eqn:B; auto.
        apply beqb_neq in Ek. exfalso. apply Ek. apply bleb_antisym; auto. }
      unfold seek_pred at 1. rewrite Hek.
      destruct pre as [|e' pre']; simpl; auto.
      unfold seek_pred. rewrite (bleb_false_flip k (fst e')) by (apply Hpre; left; reflexivity).
      split; auto. rewrite E. simpl. rewrite <- app_assoc. reflexivity.
Qed.

(** ** one wrapper call *)
Definition LS (rv : bool) : list entry := if rv then rev L else L.

Definition ok_pos (rv : bool) (c : lcur) (p : spec_pos) : Prop :=
  match p with Some s => R rv c s | None => True end.

Lemma step_sim rv c p o :
  ok_pos rv c p -> (o = INext -> p <> None) ->
  exists c' s',
    it_step (ItL (mkit rv c)) o = (ItL (mkit rv c'), spec_obs s') /\
    spec_step rv (LS rv) p o = Some s' /\ R rv c' s'.
Proof.
  intros Hp Hn. destruct o as [|k|].
  - (* Rewind *)
    exists (if rv then l_last L else l_first L), (LS rv).
    assert (HR : R rv (if rv then l_last L else l_first L) (LS rv)).
    { destruct rv; simpl; [apply rewind_r | apply rewind_f]. }
    split; [|split; auto].
    destruct (obs_R _ _ _ HR) as [O [V1 V2]].
    simpl. unfold ldb_rewind, ldb_set_cur, mkit in *. simpl.
    rewrite V1, V2, andb_diag. rewrite V2 in O. rewrite <- O. reflexivity.
  - (* Seek *)
    destruct rv.
    + pose proof (seek_r k) as HR. cbv zeta in HR.
      set (c1 := l_seek L k) in *.
      set (dbkey := match l_cur c1 with Some e => fst e | None => [] end) in *.
      exists (if negb (beqb dbkey k) then l_prev L c1 else c1), (drop_until (seek_pred true k) (rev L)).
      split; [|split; auto].
      destruct (obs_R true _ _ HR) as [O [V1 V2]].
      simpl. unfold ldb_seek, ldb_set_cur, mkit in *. simpl.
      fold c1. fold dbkey.
      destruct (negb (beqb dbkey k)); simpl.
      * rewrite V1, V2, andb_diag. rewrite V2 in O. rewrite <- O. reflexivity.
      * rewrite V1, V2. rewrite V2 in O. rewrite <- O. reflexivity.
    + pose proof (seek_f_R k) as HR.
      exists (l_seek L k), (drop_until (seek_pred false k) L).
      split; [|split; auto].
      destruct (obs_R false _ _ HR) as [O [V1 V2]].
      simpl. unfold ldb_seek, ldb_set_cur, mkit in *. simpl.
      rewrite V1, V2. rewrite V2 in O. rewrite <- O. reflexivity.
  - (* Next *)
    destruct p as [s|]; [|exfalso; apply Hn; auto].
    simpl in Hp.
    exists (if rv then l_prev L c else l_next L c), (tl s).
    assert (HR : R rv (if rv then l_prev L c else l_next L c) (tl s)).
    { destruct rv; simpl in *; [apply next_r | apply next_f]; auto. }
    split; [|split; auto].
    destruct (obs_R _ _ _ HR) as [O [V1 V2]].
    simpl. unfold ldb_next, ldb_set_cur, mkit in *. simpl.
    rewrite V1, V2, andb_diag. rewrite V2 in O. rewrite <- O. reflexivity.
Qed.

(** ** whole call sequences *)
Lemma run_sim rv : forall iops c s, R rv c s ->
  map Some (it_run (ItL (mkit rv c)) iops) = spec_run rv (LS rv) (Some s) iops.
Proof.
  induction iops as [|o iops IH]; intros c s HR; [reflexivity|].
  destruct (step_sim rv c (Some s) o HR) as [c' [s' [E1 [E2 HR']]]]; [discriminate|].
  cbn [it_run]. rewrite E1. cbn [map spec_run]. rewrite E2. cbn [option_map].
  f_equal. apply IH. exact HR'.
Qed.

Lemma run_sim_positioned rv iops c : positioned iops = true ->
  map Some (it_run (ItL (mkit rv c)) iops) = spec_run rv (LS rv) None iops.
Proof.
  destruct iops as [|o iops]; [reflexivity|]. intro P.
  destruct (step_sim rv c None o I) as [c' [s' [E1 [E2 HR']]]].
  { intros ->. discriminate. }
  cbn [it_run]. rewrite E1. cbn [map spec_run]. rewrite E2. cbn [option_map].
  f_equal. apply run_sim. exact HR'.
Qed.

(** ** Rewind; Next while valid *)
Lemma collect_sim rv : forall fuel c s, R rv c s -> (length s < fuel)%nat ->
  it_collect_from fuel (ItL (mkit rv c)) (spec_obs s) = s.
Proof.
  induction fuel as [|f IH]; intros c s HR Hf; [lia|].
  destruct s as [|e s']; [reflexivity|].
  cbn [it_collect_from spec_obs].
  destruct (step_sim rv c (Some (e :: s')) INext HR) as [c' [s2 [E1 [E2 HR']]]]; [discriminate|].
  rewrite E1. simpl in E2. inversion E2; subst s2.
  rewrite IH; [destruct e; reflexivity | exact HR' | simpl in Hf; lia].
Qed.

End Ldb.

(** * instantiation: the iterator opened on a store *)
Lemma range_check_key (m : store) start e' x :
  In x (range_filter (Some start) e' m) -> check_key start e' (fst x) = true.
Proof.
  intro H. apply range_filter_In in H as [_ H]. unfold in_range in H. unfold check_key.
  apply andb_true_iff in H as [H1 H2]. rewrite H1. simpl.
  destruct e' as [e|]; auto. apply bltb_bleb. exact H2.
Qed.

Lemma resolve_end_spec start end_ : resolve_end start end_ = spec_end start end_.
Proof. unfold resolve_end, spec_end. destruct end_; reflexivity. Qed.

Lemma ldb_open_eq (m : store) start end_ rv :
  ldb_open m start end_ rv =
  mkit (spec_range m start end_) start (spec_end start end_) rv LSOI.
Proof. unfold ldb_open, mkit, spec_range. rewrite resolve_end_spec. reflexivity. Qed.

Definition not_badger (b : backend) : bool := match b with BBadger => false | _ => true end.

Lemma it_open_ldb b (m : store) start end_ rv : not_badger b = true ->
  it_open b m start end_ rv = ItL (ldb_open m start end_ rv).
Proof. destruct b; simpl; auto; discriminate. Qed.

Theorem ldb_iter_refines b (m : store) start end_ rv iops :
  not_badger b = true -> sorted m -> positioned iops = true ->
  map Some (it_run (it_open b m start end_ rv) iops) =
  spec_run rv (spec_list m start end_ rv) None iops.
Proof.
  intros B S P. rewrite it_open_ldb by exact B. rewrite ldb_open_eq.
  apply (run_sim_positioned (spec_range m start end_) start (spec_end start end_)).
  - apply range_filter_sorted, S.
  - intros e He. eapply range_check_key; eauto.
  - exact P.
Qed.

Theorem ldb_iter_collect b (m : store) start end_ rv :
  not_badger b = true -> sorted m ->
  it_collect b m start end_ rv = spec_list m start end_ rv.
Proof.
  intros B S. unfold it_collect. rewrite it_open_ldb by exact B. rewrite ldb_open_eq.
  set (L := spec_range m start end_). set (e' := spec_end start end_).
  assert (SL : sorted L) by (apply range_filter_sorted, S).
  assert (CK : forall e, In e L -> check_key start e' (fst e) = true)
    by (intros e He; eapply range_check_key; eauto).
  destruct (step_sim L start e' SL CK rv LSOI None IRewind I) as [c' [s' [E1 [E2 HR]]]]; [discriminate|].
  rewrite E1. simpl in E2. inversion E2; subst s'.
  unfold spec_list. fold L.
  apply (collect_sim L start e' SL CK); [exact HR|].
  unfold LS. assert (length L <= length m)%nat by apply filter_length_le'.
  destruct rv; [rewrite rev_length|]; lia.
Qed.

(** Seek lands on the least in-range key >= k (forward) / the greatest
    in-range key <= k (reverse) *)
Lemma seek_pos_fwd k (L : list entry) : hd_error (drop_until (seek_pred false k) L) = seek_ge k L.
Proof. unfold seek_ge, first, filter_keys. rewrite hd_drop_until. reflexivity. Qed.

Lemma filter_rev' {A} (f : A -> bool) l : filter f (rev l) = rev (filter f l).
Proof.
  induction l as [|x l IH]; simpl; auto.
  rewrite filter_app, IH. simpl. destruct (f x); simpl; auto. rewrite app_nil_r. reflexivity.
Qed.

Lemma seek_pos_rev k (L : list entry) : hd_error (drop_until (seek_pred true k) (rev L)) = seek_le k L.
Proof.
  unfold seek_le, filter_keys. rewrite hd_drop_until, last_rev, <- filter_rev'. reflexivity.
Qed.

(** ... for any iterator that refines the abstract one *)
Lemma seek_spec_of_refines (s0 : it_state) (m : store) start end_ rv k pre_ops :
  map Some (it_run s0 (pre_ops ++ [ISeek k])) =
    spec_run rv (spec_list m start end_ rv) None (pre_ops ++ [ISeek k]) ->
  List.last (it_run s0 (pre_ops ++ [ISeek k])) (false, false, [], []) =
  match (if rv then seek_le k (spec_range m start end_) else seek_ge k (spec_range m start end_)) with
  | Some e => (true, true, fst e, snd e)
  | None => (false, false, [], [])
  end.
Proof.
  intro H.
  assert (G : forall os sp, spec_run rv (spec_list m start end_ rv) sp (os ++ [ISeek k]) =
            spec_run rv (spec_list m start end_ rv) sp os ++
            [Some (spec_obs (drop_until (seek_pred rv k) (spec_list m start end_ rv)))]).
  { induction os as [|o os IH]; intro sp; simpl; [reflexivity|]. rewrite IH. reflexivity. }
  rewrite G in H.
  set (run := it_run s0 (pre_ops ++ [ISeek k])) in *.
  assert (E : List.last (map Some run) None =
              Some (spec_obs (drop_until (seek_pred rv k) (spec_list m start end_ rv)))).
  { rewrite H. apply last_last. }
  assert (M : forall (l : list ires) d, l <> [] -> List.last (map Some l) None = Some (List.last l d)).
  { induction l as [|x l IH]; intros d N; [congruence|].
    destruct l as [|y l]; [reflexivity|]. change (List.last (map Some (x :: y :: l)) None) with (List.last (map Some (y :: l)) None).
    rewrite (IH d) by discriminate. reflexivity. }
  assert (NE : run <> []).
  { intro Z. rewrite Z in E. discriminate. }
  rewrite (M run (false, false, [], []) NE) in E. inversion E as [E'].
  rewrite E'. unfold spec_list. destruct rv.
  - rewrite <- seek_pos_rev. destruct (drop_until _ _); reflexivity.
  - rewrite <- seek_pos_fwd. destruct (drop_until _ _); reflexivity.
Qed.

Theorem ldb_seek_spec b (m : store) start end_ rv k pre_ops :
  not_badger b = true -> sorted m -> positioned (pre_ops ++ [ISeek k]) = true ->
  List.last (it_run (it_open b m start end_ rv) (pre_ops ++ [ISeek k])) (false, false, [], []) =
  match (if rv then seek_le k (spec_range m start end_) else seek_ge k (spec_range m start end_)) with
  | Some e => (true, true, fst e, snd e)
  | None => (false, false, [], [])
  end.
Proof.
  intros B S P. apply seek_spec_of_refines. apply ldb_iter_refines; auto.
Qed.

(** prefix iteration = the keys that have the prefix (well-formed bytes; the
    prefix bound must not happen to be the EmptyValue sentinel) *)
Theorem prefix_range (m : store) start :
  wf_bytes start -> Forall (fun e => wf_bytes (fst e)) m ->
  succ_prefix start <> Some empty_value ->
  spec_range m start None = filter_keys (is_prefix start) m.
Proof.
  intros Ws Wm Hne. unfold spec_range, range_filter, filter_keys.
  apply filter_ext_in. intros e He.
  rewrite Forall_forall in Wm. specialize (Wm e He).
  rewrite (is_prefix_charb start (fst e) Ws Wm).
  unfold in_range, spec_end, below_succb.
  destruct (succ_prefix start) as [u|]; [|reflexivity].
  destruct (beqb u empty_value) eqn:E; [|reflexivity].
  apply beqb_eq in E. subst. congruence.
Qed.
