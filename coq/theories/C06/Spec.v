(** C06 — the abstract specification: a sorted map and iterators that are
    nothing but a position in the list of in-range entries. *)
From Coq Require Import List NArith Bool.
From C33 Require Import Lib.Harness Lib.Bytes Lib.OMap C06.Model.
Import ListNotations.

(** writes *)
Definition spec_set (m : store) (k : key) (v : val) : store := put k v m.
Definition spec_del (m : store) (k : key) : store := del k m.
Definition spec_get (m : store) (k : key) : option val := get k m.
Definition spec_batch (m : store) (ws : list write) : store := fold_left apply_write ws m.

(** the last write to [k] in a batch, if any *)
Fixpoint last_write (k : key) (ws : list write) : option (option val) :=
  match ws with
  | [] => None
  | w :: tl =>
      match last_write k tl with
      | Some r => Some r
      | None => if beqb k (fst w) then Some (snd w) else None
      end
  end.

(** The upper bound of an iteration: an explicit [end] (exclusive), no bound
    for [EmptyValue]; for a prefix iteration ([end] = nil) the least string
    above all strings that have the prefix, if there is one. *)
Definition spec_end (start : key) (end_ : option key) : option key :=
  match end_ with
  | None => match succ_prefix start with
            | Some u => if beqb u empty_value then None else Some u
            | None => None
            end
  | Some e => if beqb e empty_value then None else Some e
  end.

(** in-range entries, ascending: start <= key < end *)
Definition spec_range (m : store) (start : key) (end_ : option key) : list entry :=
  range_filter (Some start) (spec_end start end_) m.

(** ... in iteration order *)
Definition spec_list (m : store) (start : key) (end_ : option key) (rv : bool) : list entry :=
  if rv then rev (spec_range m start end_) else spec_range m start end_.

(** Iterator state = the entries from the current one on ([] = not valid).
    [None] = not positioned yet (the property says nothing about Next before
    the first Rewind/Seek). *)
Definition spec_pos := option (list entry).

Definition spec_step (rv : bool) (LS : list entry) (s : spec_pos) (o : iop) : spec_pos :=
  match o with
  | IRewind => Some LS
  | ISeek k => Some (drop_until (seek_pred rv k) LS)
  | INext => match s with Some l => Some (tl l) | None => None end
  end.

Definition spec_obs (s : list entry) : ires :=
  match s with
  | e :: _ => (true, true, fst e, snd e)
  | [] => (false, false, [], [])
  end.

Fixpoint spec_run (rv : bool) (LS : list entry) (s : spec_pos) (os : list iop) : list (option ires) :=
  match os with
  | [] => []
  | o :: tl =>
      let s' := spec_step rv LS s o in
      option_map spec_obs s' :: spec_run rv LS s' tl
  end.

(** sequences that position the iterator before the first Next *)
Definition positioned (os : list iop) : bool :=
  match os with
  | INext :: _ => false
  | _ => true
  end.
