(** C06 — correspondence cases: one operation history on one backend with
    what the Go implementation returned for every Get and iterator call. *)
From Coq Require Import List NArith Bool.
From C33 Require Import Lib.Harness Lib.Bytes Lib.OMap C06.Spec.
From C33 Require Export C06.Model.
Import ListNotations.

(** Get: value (nil and empty are both reported as the empty string by the
    wrappers, non-nil), ErrNotFound, or anything else (nil slice without
    error, another error, panic). *)
Inductive gres := GFound (v : val) | GNotFound | GOther.

Inductive op :=
| OSet (k : key) (v : val)
| ODel (k : key)
| OBatch (ws : list write)
| OGet (k : key) (r : gres)
| OIter (start : key) (end_ : option key) (rv : bool) (iops : list (iop * ires)).

Inductive case := Case (b : backend) (ops : list op).

Definition ires_eqb (a b : ires) : bool :=
  match a, b with
  | (r1, v1, k1, x1), (r2, v2, k2, x2) =>
      Bool.eqb r1 r2 && Bool.eqb v1 v2 && bytes_eqb k1 k2 && bytes_eqb x1 x2
  end.

Definition gres_eqb (a b : gres) : bool :=
  match a, b with
  | GFound x, GFound y => bytes_eqb x y
  | GNotFound, GNotFound => true
  | _, _ => false
  end.

Definition gres_of (o : option val) : gres :=
  match o with Some v => GFound v | None => GNotFound end.

(** No finding of this property is open: a spec divergence never gets a
    known-finding code (the third component of the verdict stays 0). *)
Fixpoint model_rest (s : it_state) (iops : list (iop * ires)) : bool :=
  match iops with
  | [] => true
  | (o, r) :: tl => let '(s', rm) := it_step s o in ires_eqb rm r && model_rest s' tl
  end.

Section Iter.
Variables (rv : bool) (LS : list entry).

Fixpoint chk_iops (s : it_state) (p : spec_pos) (iops : list (iop * ires)) : verdict :=
  match iops with
  | [] => ok_verdict
  | (o, r) :: tl =>
      let '(s', rm) := it_step s o in
      let p' := spec_step rv LS p o in
      let mo := ires_eqb rm r in
      let so := match p' with None => true | Some l => ires_eqb (spec_obs l) r end in
      if so then
        match chk_iops s' p' tl with (m2, s2, c2) => (mo && m2, s2, c2) end
      else (mo && model_rest s' tl, false, 0%N)
  end.
End Iter.

Definition chk_iter (b : backend) (mm sm : store) (start : key)
    (end_ : option key) (rv : bool) (iops : list (iop * ires)) : verdict :=
  let LS := spec_list sm start end_ rv in
  chk_iops rv LS (it_open b mm start end_ rv) None iops.

(** fold over the history: model state, spec state, verdict so far *)
Fixpoint chk_ops (b : backend) (mm sm : store) (ops : list op) : verdict :=
  match ops with
  | [] => ok_verdict
  | o :: tl =>
      let '(mm', sm', (m1, s1, c1)) :=
        match o with
        | OSet k v => (db_set mm k v, spec_set sm k v, ok_verdict)
        | ODel k => (db_del mm k, spec_del sm k, ok_verdict)
        | OBatch ws => (db_batch b mm ws, spec_batch sm ws, ok_verdict)
        | OGet k r => (mm, sm, mk_verdict (gres_eqb (gres_of (db_get mm k)) r)
                                          (gres_eqb (gres_of (spec_get sm k)) r))
        | OIter start end_ rv iops => (mm, sm, chk_iter b mm sm start end_ rv iops)
        end in
      match chk_ops b mm' sm' tl with
      | (m2, s2, c2) =>
          (* the code of the FIRST spec divergence counts *)
          (m1 && m2, s1 && s2, if s1 then c2 else c1)
      end
  end.

Definition check_case (c : case) : verdict :=
  match c with
  | Case b ops => chk_ops b [] [] ops
  end.
