(** C06 — executable model of chain33's key/value backend wrappers
    (common/db/db.go, go_level_db.go, go_mem_db.go, go_badger_db.go) as they
    are, over an ordered map ([Lib.OMap]) and library cursors that obey the
    goleveldb / badger iterator contracts (stated oracles, see below).

    State of a database = a sorted association list [store].  Values are byte
    strings; a [nil] value is stored as the empty string by all three
    libraries, and all three wrappers return a non-nil empty slice for it. *)
From Coq Require Import String.
From Coq Require Import List NArith Bool.
From C33 Require Import Lib.Harness Lib.Bytes Lib.OMap.
Import ListNotations.

Definition key := list N.
Definition val := list N.
Definition entry : Type := (key * val)%type.
Definition store := list entry.

Inductive backend := BMem | BLdb | BBadger.

(** types.EmptyValue: an explicit [end] equal to it means "no upper bound". *)
Definition empty_value : list N := bs "FFFFFFFFemptyBVBiCj5jvE15pEiwro8TQRGnJSNsJF"%string.

(** * Point operations (Set / Delete / Get) — identical in the three wrappers *)
Definition db_set (m : store) (k : key) (v : val) : store := put k v m.
Definition db_del (m : store) (k : key) : store := del k m.
Definition db_get (m : store) (k : key) : option val := get k m.

(** * Batches.  A batch is the list of recorded writes; [None] = Delete. *)
Definition write : Type := (key * option val)%type.

Definition apply_write (m : store) (w : write) : store :=
  match snd w with
  | Some v => db_set m (fst w) v
  | None => db_del m (fst w)
  end.

(** memBatch.Write: loop over the recorded writes, Delete when the value is
    nil (only [memBatch.Delete] records nil: [memBatch.Set] clones the value,
    which makes it non-nil), Set otherwise.
    goLevelDBBatch.Write: leveldb.Batch replays its records in order
    (library oracle), atomically. *)
Definition seq_batch_write (m : store) (ws : list write) : store :=
  fold_left apply_write ws m.

(** GoBadgerDBBatch: the writes go into a badger transaction, which keeps one
    pending entry per key (a later write to the same key replaces the earlier
    one); Commit applies the pending entries (library oracle). *)
Definition badger_pending (ws : list write) : list (key * option val) :=
  fold_left (fun p w => put (fst w) (snd w) p) ws [].

Definition badger_batch_write (m : store) (ws : list write) : store :=
  fold_left apply_write (badger_pending ws) m.

Definition db_batch (b : backend) (m : store) (ws : list write) : store :=
  match b with
  | BBadger => badger_batch_write m ws
  | _ => seq_batch_write m ws
  end.

(** * Iterator bounds (db.go) *)

(** Iterator(start, end, reverse): [end == nil] => bytesPrefix(start);
    then [end == EmptyValue] => nil. *)
Definition resolve_end (start : key) (end_ : option key) : option key :=
  let e := match end_ with None => succ_prefix start | Some e => Some e end in
  match e with
  | Some e' => if beqb e' empty_value then None else Some e'
  | None => None
  end.

(** itBase.checkKey: [key >= start] (when start != nil; an empty start is
    below everything) and [key <= end] (when end != nil). *)
Definition check_key (start : key) (end' : option key) (k : key) : bool :=
  bleb start k && match end' with None => true | Some e => bleb k e end.

(** * goleveldb / memdb library iterator over [util.Range{Start, Limit}]

    Oracle (goleveldb leveldb/db_iter.go and memdb/memdb.go): the iterator
    ranges over the entries [L] with [Start <= key < Limit] in key order; it is
    before the first entry (SOI, also the initial state), on an entry, or
    after the last (EOI).  First/Last/Seek(k) (= first entry with key >= k, EOI
    if none); Next from SOI = First, from EOI stays; Prev from EOI = Last,
    from SOI stays.  The position is a zipper: [pre] (reversed) [e] [post]. *)
Inductive lcur :=
| LSOI
| LEOI
| LAt (pre : list entry) (e : entry) (post : list entry).

Definition l_first (L : list entry) : lcur :=
  match L with [] => LEOI | e :: post => LAt [] e post end.

Definition l_last (L : list entry) : lcur :=
  match rev L with [] => LSOI | e :: pre => LAt pre e [] end.

Fixpoint l_seek_go (k : key) (pre L : list entry) : lcur :=
  match L with
  | [] => LEOI
  | e :: post => if bleb k (fst e) then LAt pre e post else l_seek_go k (e :: pre) post
  end.

Definition l_seek (L : list entry) (k : key) : lcur := l_seek_go k [] L.

Definition l_next (L : list entry) (c : lcur) : lcur :=
  match c with
  | LSOI => l_first L
  | LEOI => LEOI
  | LAt pre e post =>
      match post with [] => LEOI | e' :: post' => LAt (e :: pre) e' post' end
  end.

Definition l_prev (L : list entry) (c : lcur) : lcur :=
  match c with
  | LSOI => LSOI
  | LEOI => l_last L
  | LAt pre e post =>
      match pre with [] => LSOI | e' :: pre' => LAt pre' e' (e :: post) end
  end.

Definition l_cur (c : lcur) : option entry :=
  match c with LAt _ e _ => Some e | _ => None end.

Definition l_valid (c : lcur) : bool :=
  match c with LAt _ _ _ => true | _ => false end.

(** * goLevelDBIt (used by GoLevelDB and GoMemDB) *)
Record ldb_it := mk_ldb_it {
  li_L : list entry;       (* entries inside util.Range{start, end'} *)
  li_start : key;
  li_end : option key;     (* resolved end *)
  li_rev : bool;
  li_cur : lcur }.

Definition ldb_open (m : store) (start : key) (end_ : option key) (rv : bool) : ldb_it :=
  let e := resolve_end start end_ in
  mk_ldb_it (range_filter (Some start) e m) start e rv LSOI.

Definition ldb_set_cur (it : ldb_it) (c : lcur) : ldb_it :=
  mk_ldb_it (li_L it) (li_start it) (li_end it) (li_rev it) c.

(** Valid(): Iterator.Valid() && checkKey(Key()) *)
Definition ldb_valid (it : ldb_it) : bool :=
  match l_cur (li_cur it) with
  | Some e => check_key (li_start it) (li_end it) (fst e)
  | None => false
  end.

(** Next(): reverse ? Prev() && Valid() : Next() && Valid() *)
Definition ldb_next (it : ldb_it) : ldb_it * bool :=
  let c := if li_rev it then l_prev (li_L it) (li_cur it) else l_next (li_L it) (li_cur it) in
  let it' := ldb_set_cur it c in
  (it', l_valid c && ldb_valid it').

(** Rewind(): reverse ? Last() && Valid() : First() && Valid() *)
Definition ldb_rewind (it : ldb_it) : ldb_it * bool :=
  let c := if li_rev it then l_last (li_L it) else l_first (li_L it) in
  let it' := ldb_set_cur it c in
  (it', l_valid c && ldb_valid it').

(** Seek(key): exist := Iterator.Seek(key); dbKey := Key() (nil when not
    valid); if reverse && !bytes.Equal(dbKey, key) { return Prev() && Valid() };
    return exist *)
Definition ldb_seek (it : ldb_it) (k : key) : ldb_it * bool :=
  let c := l_seek (li_L it) k in
  let dbkey := match l_cur c with Some e => fst e | None => [] end in
  if li_rev it && negb (beqb dbkey k) then
    let c' := l_prev (li_L it) c in
    let it' := ldb_set_cur it c' in
    (it', l_valid c' && ldb_valid it')
  else (ldb_set_cur it c, l_valid c).

Definition ldb_entry (it : ldb_it) : option entry := l_cur (li_cur it).

(** * badger library iterator (badger v1.6.2 iterator.go), no prefix option.

    Oracle: the iterator ranges over all entries of the snapshot in the
    direction fixed at creation; Seek(k) with an empty k rewinds (first entry
    in iteration order); otherwise forward = first entry with key >= k,
    reverse = first entry (going down) with key <= k; Next advances; the
    iterator is valid while it is on an entry.  State = the entries from the
    current one on, in iteration order ([] = not valid).  Next on a not-valid
    badger iterator dereferences nil (panics); that call is outside the model
    (the harness never issues it). *)
Fixpoint drop_until {A} (f : A -> bool) (l : list A) : list A :=
  match l with
  | [] => []
  | x :: tl => if f x then l else drop_until f tl
  end.

Definition seek_pred (rv : bool) (k : key) (e : entry) : bool :=
  if rv then bleb (fst e) k else bleb k (fst e).

Definition b_seek (rv : bool) (all : list entry) (k : key) : list entry :=
  match k with
  | [] => all
  | _ => drop_until (seek_pred rv k) all
  end.

Record bad_it := mk_bad_it {
  bi_all : list entry;     (* all entries in iteration order *)
  bi_start : key;
  bi_end : option key;
  bi_rev : bool;
  bi_cur : list entry }.

(** [end != nil && bytes.Equal(key, end)] *)
Definition at_end (end' : option key) (k : key) : bool :=
  match end' with Some e => beqb k e | None => false end.

(** Rewind(): forward Iterator.Seek(start); reverse Iterator.Seek(end) (an
    empty/nil end rewinds the library iterator) and, end being exclusive, one
    library Next when that lands on the entry stored under end itself. *)
Definition skip_end (end' : option key) (c : list entry) : list entry :=
  match c with
  | x :: tl => if at_end end' (fst x) then tl else c
  | [] => c
  end.

Definition bad_rewind_rev (all : list entry) (end' : option key) : list entry :=
  skip_end end' (b_seek true all (match end' with Some e => e | None => [] end)).

Definition bad_rewind_cur (rv : bool) (all : list entry) (start : key) (end' : option key) : list entry :=
  if rv then bad_rewind_rev all end' else b_seek false all start.

(** Seek(key): the target is clamped into [start, end) first.
    reverse: key >= end (end != nil) => Rewind(); an empty key (nothing is
    <= it, but the library would rewind) => library Seek("\x00") and one
    library Next when that is valid; forward: key < start => start. *)
Definition bad_seek_rev (all : list entry) (end' : option key) (k : key) : list entry :=
  if match end' with Some e => bleb e k | None => false end
  then bad_rewind_rev all end'
  else match k with
       | [] => tl (b_seek true all [0%N])
       | _ => b_seek true all k
       end.

Definition bad_seek_fwd (all : list entry) (start : key) (k : key) : list entry :=
  b_seek false all (if bltb k start then start else k).

Definition bad_seek_cur (rv : bool) (all : list entry) (start : key) (end' : option key)
    (k : key) : list entry :=
  if rv then bad_seek_rev all end' k else bad_seek_fwd all start k.

(** Iterator(): builds the wrapper and calls its Rewind() *)
Definition bad_open (m : store) (start : key) (end_ : option key) (rv : bool) : bad_it :=
  let e := resolve_end start end_ in
  let all := if rv then rev m else m in
  mk_bad_it all start e rv (bad_rewind_cur rv all start e).

Definition bad_set_cur (it : bad_it) (c : list entry) : bad_it :=
  mk_bad_it (bi_all it) (bi_start it) (bi_end it) (bi_rev it) c.

(** Valid(): Iterator.Valid(), not on the (exclusive) end bound, checkKey(Key()) *)
Definition bad_valid (it : bad_it) : bool :=
  match bi_cur it with
  | e :: _ => negb (at_end (bi_end it) (fst e)) && check_key (bi_start it) (bi_end it) (fst e)
  | [] => false
  end.

Definition bad_rewind (it : bad_it) : bad_it * bool :=
  let it' := bad_set_cur it (bad_rewind_cur (bi_rev it) (bi_all it) (bi_start it) (bi_end it)) in
  (it', bad_valid it').

Definition bad_seek (it : bad_it) (k : key) : bad_it * bool :=
  let it' := bad_set_cur it (bad_seek_cur (bi_rev it) (bi_all it) (bi_start it) (bi_end it) k) in
  (it', bad_valid it').

Definition bad_next (it : bad_it) : bad_it * bool :=
  let it' := bad_set_cur it (tl (bi_cur it)) in
  (it', bad_valid it').

Definition bad_entry (it : bad_it) : option entry := hd_error (bi_cur it).

(** * Uniform interface used by the correspondence check *)
Inductive iop := IRewind | ISeek (k : key) | INext.

(** observable of one iterator call: return value, Valid(), Key(), Value()
    (key and value only while valid, [] otherwise) *)
Definition ires : Type := (bool * bool * key * val)%type.

Inductive it_state := ItL (it : ldb_it) | ItB (it : bad_it).

Definition it_open (b : backend) (m : store) (start : key) (end_ : option key) (rv : bool) : it_state :=
  match b with
  | BBadger => ItB (bad_open m start end_ rv)
  | _ => ItL (ldb_open m start end_ rv)
  end.

Definition mk_ires (ret valid : bool) (e : option entry) : ires :=
  match valid, e with
  | true, Some e => (ret, true, fst e, snd e)
  | _, _ => (ret, valid, [], [])
  end.

Definition it_step (s : it_state) (o : iop) : it_state * ires :=
  match s with
  | ItL it =>
      let '(it', r) := match o with
                       | IRewind => ldb_rewind it
                       | ISeek k => ldb_seek it k
                       | INext => ldb_next it
                       end in
      (ItL it', mk_ires r (ldb_valid it') (ldb_entry it'))
  | ItB it =>
      let '(it', r) := match o with
                       | IRewind => bad_rewind it
                       | ISeek k => bad_seek it k
                       | INext => bad_next it
                       end in
      (ItB it', mk_ires r (bad_valid it') (bad_entry it'))
  end.

Fixpoint it_run (s : it_state) (os : list iop) : list ires :=
  match os with
  | [] => []
  | o :: tl => let '(s', r) := it_step s o in r :: it_run s' tl
  end.

(** Rewind, then Next while valid, collecting the entries ([fuel] bounds the
    loop; [length m + 1] always suffices, see the theorems). *)
Fixpoint it_collect_from (fuel : nat) (s : it_state) (r : ires) : list entry :=
  match fuel with
  | O => []
  | S f =>
      match r with
      | (_, true, k, v) => let '(s', r') := it_step s INext in (k, v) :: it_collect_from f s' r'
      | _ => []
      end
  end.

Definition it_collect (b : backend) (m : store) (start : key) (end_ : option key) (rv : bool) : list entry :=
  let '(s, r) := it_step (it_open b m start end_ rv) IRewind in
  it_collect_from (S (length m)) s r.
