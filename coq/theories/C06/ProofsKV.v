(** C06 — point writes, batches and reads. *)
From Coq Require Import List NArith Bool Lia.
From C33 Require Import Lib.Harness Lib.Bytes Lib.OMap C06.Model C06.Spec.
Import ListNotations.

Lemma apply_write_sorted (m : store) w : sorted m -> sorted (apply_write m w).
Proof.
  intro S. unfold apply_write, db_set, db_del. destruct (snd w).
  - apply put_sorted, S.
  - apply del_sorted, S.
Qed.

Lemma get_apply_write (m : store) w k :
  sorted m -> get k (apply_write m w) = if beqb k (fst w) then snd w else get k m.
Proof.
  intro S. unfold apply_write, db_set, db_del. destruct (snd w) as [v|].
  - apply get_put.
  - apply get_del, S.
Qed.

Lemma fold_apply_sorted ws : forall m : store, sorted m -> sorted (fold_left apply_write ws m).
Proof.
  induction ws as [|w ws IH]; simpl; auto. intros m S. apply IH, apply_write_sorted, S.
Qed.

(** a read after a batch sees the last write to the key, else the old value *)
Lemma fold_apply_get ws : forall (m : store) k, sorted m ->
  get k (fold_left apply_write ws m) =
  match last_write k ws with Some r => r | None => get k m end.
Proof.
  induction ws as [|w ws IH]; simpl; auto. intros m k S.
  rewrite IH by (apply apply_write_sorted, S).
  destruct (last_write k ws) as [r|]; [reflexivity|].
  rewrite get_apply_write by exact S. destruct (beqb k (fst w)); reflexivity.
Qed.

(** badger: the pending entries of the transaction *)
Definition putw (p : list (key * option val)) (w : write) := put (fst w) (snd w) p.

Lemma pending_sorted ws : forall p, sorted p -> sorted (fold_left putw ws p).
Proof.
  induction ws as [|w ws IH]; simpl; auto. intros p S. apply IH. apply put_sorted, S.
Qed.

Lemma pending_sorted0 ws : sorted (fold_left putw ws []).
Proof. apply pending_sorted. exact I. Qed.

Lemma pending_get ws : forall p k,
  get k (fold_left putw ws p) =
  match last_write k ws with Some r => Some r | None => get k p end.
Proof.
  induction ws as [|w ws IH]; simpl; auto. intros p k.
  rewrite IH. destruct (last_write k ws) as [r|]; [reflexivity|].
  unfold putw. rewrite get_put. destruct (beqb k (fst w)); reflexivity.
Qed.

Lemma last_write_sorted (p : list write) k : sorted p -> last_write k p = get k p.
Proof.
  induction p as [|[k' r] tl IH]; simpl; auto. intros [L S]. simpl in L.
  rewrite (IH S). destruct (beqb k k') eqn:E.
  - apply beqb_eq in E. subst k'. rewrite (get_lb_none k tl L). reflexivity.
  - destruct (get k tl); reflexivity.
Qed.

Lemma badger_batch_get (m : store) ws k : sorted m ->
  get k (badger_batch_write m ws) =
  match last_write k ws with Some r => r | None => get k m end.
Proof.
  intro S. unfold badger_batch_write, badger_pending.
  change (fun p w => put (fst w) (snd w) p) with putw.
  rewrite fold_apply_get by exact S.
  rewrite last_write_sorted by apply pending_sorted0.
  rewrite pending_get. simpl. destruct (last_write k ws); reflexivity.
Qed.

Lemma badger_batch_sorted (m : store) ws : sorted m -> sorted (badger_batch_write m ws).
Proof. intro S. apply fold_apply_sorted, S. Qed.

Lemma db_batch_sorted b (m : store) ws : sorted m -> sorted (db_batch b m ws).
Proof.
  intro S. destruct b; [apply fold_apply_sorted, S | apply fold_apply_sorted, S | apply badger_batch_sorted, S].
Qed.

(** every backend's batch = applying the recorded writes one after the other *)
Lemma batch_is_fold b (m : store) ws : sorted m ->
  db_batch b m ws = fold_left apply_write ws m.
Proof.
  intro S. destruct b; try reflexivity. simpl.
  apply sorted_ext.
  - apply badger_batch_sorted, S.
  - apply fold_apply_sorted, S.
  - intro k. rewrite badger_batch_get, fold_apply_get by exact S. reflexivity.
Qed.

Lemma batch_is_fold_sorted b (m : store) ws : sorted m ->
  db_batch b m ws = fold_left apply_write ws m /\ sorted (db_batch b m ws).
Proof. intro S. split; [exact (batch_is_fold b m ws S) | exact (db_batch_sorted b m ws S)]. Qed.

Lemma db_batch_get b (m : store) ws k : sorted m ->
  db_get (db_batch b m ws) k =
  match last_write k ws with Some r => r | None => db_get m k end.
Proof.
  intro S. unfold db_get. rewrite batch_is_fold by exact S. apply fold_apply_get, S.
Qed.

Lemma read_your_writes (m : store) k k' v : sorted m ->
  db_get (db_set m k v) k = Some v /\
  db_get (db_del m k) k = None /\
  (k' <> k -> db_get (db_set m k v) k' = db_get m k' /\ db_get (db_del m k) k' = db_get m k') /\
  sorted (db_set m k v) /\ sorted (db_del m k).
Proof.
  intro S. unfold db_get, db_set, db_del. repeat split.
  - apply get_put_same.
  - apply get_del_same, S.
  - apply get_put_other, H.
  - apply get_del_other, H.
  - apply put_sorted, S.
  - apply del_sorted, S.
Qed.
