From Coq Require Import List NArith Bool.
From C33 Require Import Lib.Harness Lib.Bytes Lib.OMap C06.Model C06.Spec C06.ProofsKV C06.ProofsIter C06.ProofsBadger.
Import ListNotations.

Theorem C06_batch_is_fold : forall b (m : store) ws, sorted m ->
  db_batch b m ws = fold_left apply_write ws m /\ sorted (db_batch b m ws).
Proof. exact batch_is_fold_sorted. Qed.
Print Assumptions C06_batch_is_fold.

Theorem C06_read_your_writes : forall (m : store) k k' v, sorted m ->
  db_get (db_set m k v) k = Some v /\
  db_get (db_del m k) k = None /\
  (k' <> k -> db_get (db_set m k v) k' = db_get m k' /\ db_get (db_del m k) k' = db_get m k') /\
  sorted (db_set m k v) /\ sorted (db_del m k).
Proof. exact read_your_writes. Qed.
Print Assumptions C06_read_your_writes.

Theorem C06_read_after_batch : forall b (m : store) ws k, sorted m ->
  db_get (db_batch b m ws) k =
  match last_write k ws with Some r => r | None => db_get m k end.
Proof. exact db_batch_get. Qed.
Print Assumptions C06_read_after_batch.

Theorem C06_iter_refines : forall b (m : store) start end_ rv iops,
  not_badger b = true -> sorted m -> positioned iops = true ->
  map Some (it_run (it_open b m start end_ rv) iops) =
  spec_run rv (spec_list m start end_ rv) None iops.
Proof. exact ldb_iter_refines. Qed.
Print Assumptions C06_iter_refines.

Theorem C06_iter_collect_spec : forall b (m : store) start end_ rv,
  not_badger b = true -> sorted m ->
  it_collect b m start end_ rv = spec_list m start end_ rv.
Proof. exact ldb_iter_collect. Qed.
Print Assumptions C06_iter_collect_spec.

Theorem C06_seek_spec : forall b (m : store) start end_ rv k pre_ops,
  not_badger b = true -> sorted m -> positioned (pre_ops ++ [ISeek k]) = true ->
  List.last (it_run (it_open b m start end_ rv) (pre_ops ++ [ISeek k])) (false, false, [], []) =
  match (if rv then seek_le k (spec_range m start end_) else seek_ge k (spec_range m start end_)) with
  | Some e => (true, true, fst e, snd e)
  | None => (false, false, [], [])
  end.
Proof. exact ldb_seek_spec. Qed.
Print Assumptions C06_seek_spec.

Theorem C06_prefix_range : forall (m : store) start,
  wf_bytes start -> Forall (fun e => wf_bytes (fst e)) m ->
  succ_prefix start <> Some empty_value ->
  spec_range m start None = filter_keys (is_prefix start) m.
Proof. exact prefix_range. Qed.
Print Assumptions C06_prefix_range.

Theorem C06_badger_iter_refines : forall (m : store) start end_ rv iops,
  sorted m -> keys_nonempty m = true -> positioned iops = true ->
  map Some (it_run (it_open BBadger m start end_ rv) iops) =
  spec_run rv (spec_list m start end_ rv) None iops.
Proof. exact badger_iter_refines. Qed.
Print Assumptions C06_badger_iter_refines.

Theorem C06_badger_iter_collect : forall (m : store) start end_ rv,
  sorted m ->
  it_collect BBadger m start end_ rv = spec_list m start end_ rv.
Proof. exact badger_iter_collect. Qed.
Print Assumptions C06_badger_iter_collect.

Theorem C06_badger_seek_spec : forall (m : store) start end_ rv k pre_ops,
  sorted m -> keys_nonempty m = true -> positioned (pre_ops ++ [ISeek k]) = true ->
  List.last (it_run (it_open BBadger m start end_ rv) (pre_ops ++ [ISeek k])) (false, false, [], []) =
  match (if rv then seek_le k (spec_range m start end_) else seek_ge k (spec_range m start end_)) with
  | Some e => (true, true, fst e, snd e)
  | None => (false, false, [], [])
  end.
Proof. exact badger_seek_spec. Qed.
Print Assumptions C06_badger_seek_spec.
