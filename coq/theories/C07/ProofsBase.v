(** C07 — order, sortedness and filter lemmas used by all proofs. *)
From Coq Require Import List NArith ZArith Bool Lia Sorted.
From C33 Require Import Lib.Harness Lib.Bytes Lib.OMap C07.Model C07.Spec.
Import ListNotations.

(** * the iteration order on keys *)
Lemma before_irrefl rv a : before rv a a = false.
Proof. destruct rv; apply bltb_irrefl. Qed.

Lemma before_trans rv a b c : before rv a b = true -> before rv b c = true -> before rv a c = true.
Proof. destruct rv; simpl; intros H1 H2; eauto using bltb_trans. Qed.

Lemma before_nlt_trans rv a b c : before rv a b = true -> before rv c b = false -> before rv a c = true.
Proof.
  destruct rv; simpl; intros H1 H2.
  - apply (bleb_bltb_trans c b a); [rewrite bleb_nbltb, H2; reflexivity | exact H1].
  - apply (bltb_bleb_trans a b c); [exact H1 | rewrite bleb_nbltb, H2; reflexivity].
Qed.

Lemma before_asym rv a b : before rv a b = true -> before rv b a = false.
Proof.
  intro H. destruct (before rv b a) eqn:E; [|reflexivity].
  pose proof (before_trans _ _ _ _ H E) as T. rewrite before_irrefl in T. discriminate.
Qed.

Lemma before_total rv a b : before rv a b = false -> before rv b a = false -> a = b.
Proof.
  destruct rv; simpl; intros H1 H2.
  - apply bleb_antisym; rewrite bleb_nbltb; [rewrite H1 | rewrite H2]; reflexivity.
  - apply bleb_antisym; rewrite bleb_nbltb; [rewrite H2 | rewrite H1]; reflexivity.
Qed.

Lemma mcompare_lt rv a b : mcompare rv a b = Lt <-> before rv a b = true.
Proof.
  destruct rv; simpl.
  - rewrite bltb_lt. destruct (bcmp a b) eqn:E; simpl; split; intro H; try discriminate.
    + apply bcmp_eq in E. subst. rewrite bcmp_refl in H. discriminate.
    + apply bcmp_lt_gt in E. congruence.
    + apply bcmp_gt_lt. exact E.
    + reflexivity.
  - symmetry. apply bltb_lt.
Qed.

Lemma mcompare_eq rv a b : mcompare rv a b = Eq <-> a = b.
Proof.
  destruct rv; simpl.
  - destruct (bcmp a b) eqn:E; simpl; split; intro H; try discriminate.
    + apply bcmp_eq; exact E.
    + reflexivity.
    + subst. rewrite bcmp_refl in E. discriminate.
    + subst. rewrite bcmp_refl in E. discriminate.
  - apply bcmp_eq_iff.
Qed.

(** key predicates "at or after c" / "strictly after c" *)
Definition nbk (rv : bool) (c k : bytes) : bool := negb (before rv k c).
Definition afk (rv : bool) (c k : bytes) : bool := before rv c k.

Lemma afk_nbk rv c k : afk rv c k = true -> nbk rv c k = true.
Proof. unfold afk, nbk. intro H. rewrite (before_asym _ _ _ H). reflexivity. Qed.

Lemma nbk_cases rv c k : nbk rv c k = true -> k = c \/ afk rv c k = true.
Proof.
  unfold nbk, afk. intro H. apply negb_true_iff in H.
  destruct (before rv c k) eqn:E; [right; reflexivity | left; apply (before_total rv); assumption].
Qed.

Lemma nbk_refl rv c : nbk rv c c = true.
Proof. unfold nbk. rewrite before_irrefl. reflexivity. Qed.

Lemma afk_irrefl rv c : afk rv c c = false.
Proof. apply before_irrefl. Qed.

Lemma nbk_up rv c a b : nbk rv c a = true -> before rv a b = true -> nbk rv c b = true.
Proof.
  unfold nbk. intros H1 H2. apply negb_true_iff in H1. apply negb_true_iff.
  destruct (before rv b c) eqn:E; [|reflexivity].
  rewrite (before_trans _ _ _ _ H2 E) in H1. discriminate.
Qed.

Lemma afk_up rv c a b : afk rv c a = true -> before rv a b = true -> afk rv c b = true.
Proof. unfold afk. apply before_trans. Qed.

Lemma afk_of_nbk rv c a b : nbk rv c a = true -> before rv a b = true -> afk rv c b = true.
Proof.
  intros H1 H2. destruct (nbk_cases _ _ _ H1) as [->|H]; [exact H2 | eapply afk_up; eauto].
Qed.

(** * generic filter facts *)
Lemma filter_all_true {A} (f : A -> bool) l : (forall x, In x l -> f x = true) -> filter f l = l.
Proof.
  induction l as [|x l IH]; intro H; simpl; [reflexivity|].
  rewrite (H x (or_introl eq_refl)). f_equal. apply IH. intros y Hy. apply H. right. exact Hy.
Qed.

Lemma filter_all_false {A} (f : A -> bool) l : (forall x, In x l -> f x = false) -> filter f l = [].
Proof.
  induction l as [|x l IH]; intro H; simpl; [reflexivity|].
  rewrite (H x (or_introl eq_refl)). apply IH. intros y Hy. apply H. right. exact Hy.
Qed.

Lemma filter_filter_sub {A} (f g : A -> bool) l :
  (forall x, In x l -> f x = true -> g x = true) -> filter f (filter g l) = filter f l.
Proof.
  induction l as [|x l IH]; intro H; simpl; [reflexivity|].
  destruct (g x) eqn:G; simpl.
  - destruct (f x); [f_equal|]; apply IH; intros y Hy; apply H; right; exact Hy.
  - destruct (f x) eqn:F.
    + rewrite (H x (or_introl eq_refl) F) in G. discriminate.
    + apply IH. intros y Hy. apply H. right. exact Hy.
Qed.

Lemma filter_comm {A} (f g : A -> bool) l : filter f (filter g l) = filter g (filter f l).
Proof.
  induction l as [|x l IH]; simpl; [reflexivity|].
  destruct (g x) eqn:G, (f x) eqn:F; simpl; rewrite ?G, ?F, IH; reflexivity.
Qed.

Lemma filter_rev {A} (f : A -> bool) l : filter f (rev l) = rev (filter f l).
Proof.
  induction l as [|x l IH]; simpl; [reflexivity|].
  rewrite filter_app, IH. simpl. destruct (f x); simpl; [reflexivity | apply app_nil_r].
Qed.

(** * lists sorted in iteration order *)
Definition ltk (rv : bool) (a b : entry) : Prop := before rv (fst a) (fst b) = true.
Definition dsorted (rv : bool) (l : list entry) : Prop := StronglySorted (ltk rv) l.

Lemma dsorted_inv rv e l : dsorted rv (e :: l) -> dsorted rv l /\ Forall (ltk rv e) l.
Proof. apply StronglySorted_inv. Qed.

Lemma dsorted_filter rv f l : dsorted rv l -> dsorted rv (filter f l).
Proof.
  induction l as [|e l IH]; intro H; simpl; [constructor|].
  apply dsorted_inv in H as [H1 H2]. destruct (f e); [|apply IH; exact H1].
  constructor; [apply IH; exact H1|].
  rewrite Forall_forall in *. intros x Hx. apply filter_In in Hx as [Hx _]. apply H2. exact Hx.
Qed.

Lemma sorted_dsorted (m : store) : sorted m -> dsorted false m.
Proof.
  induction m as [|e m IH]; intro H; [constructor|].
  apply sorted_cons in H as [H1 H2]. constructor; [apply IH; exact H2|].
  unfold lb_all in H1. rewrite Forall_forall in *. intros x Hx. unfold ltk. simpl.
  apply bltb_lt. apply H1. exact Hx.
Qed.

Lemma ssorted_snoc {A} (R : A -> A -> Prop) l x :
  StronglySorted R l -> Forall (fun y => R y x) l -> StronglySorted R (l ++ [x]).
Proof.
  induction l as [|a l IH]; intros H1 H2; simpl.
  - constructor; constructor.
  - apply StronglySorted_inv in H1 as [H1 H3]. inversion H2; subst.
    constructor; [apply IH; assumption|].
    apply Forall_app. split; [exact H3 | constructor; [assumption | constructor]].
Qed.

Lemma dsorted_rev (m : list entry) : dsorted false m -> dsorted true (rev m).
Proof.
  induction m as [|e m IH]; intro H; simpl; [constructor|].
  apply dsorted_inv in H as [H1 H2].
  apply ssorted_snoc; [apply IH; exact H1|].
  rewrite Forall_forall in *. intros x Hx. apply in_rev in Hx. exact (H2 x Hx).
Qed.

Lemma dsorted_dir rv (m : store) : sorted m -> dsorted rv (if rv then rev m else m).
Proof. intro H. destruct rv; [apply dsorted_rev|]; apply sorted_dsorted; exact H. Qed.

Lemma dsorted_app_inv rv a b : dsorted rv (a ++ b) ->
  dsorted rv a /\ dsorted rv b /\ (forall x y, In x a -> In y b -> ltk rv x y).
Proof.
  induction a as [|e a IH]; simpl; intro H.
  - repeat split; [constructor | exact H | intros x y []].
  - apply dsorted_inv in H as [H1 H2]. destruct (IH H1) as (Ha & Hb & Hab).
    rewrite Forall_forall in H2.
    repeat split; [constructor; [exact Ha|] | exact Hb |].
    + rewrite Forall_forall. intros x Hx. apply H2. apply in_or_app. left. exact Hx.
    + intros x y [->|Hx] Hy; [apply H2; apply in_or_app; right; exact Hy | apply Hab; assumption].
Qed.

Lemma dsorted_keys_inj rv l e1 e2 : dsorted rv l -> In e1 l -> In e2 l -> fst e1 = fst e2 -> e1 = e2.
Proof.
  induction l as [|e l IH]; intros H H1 H2 E; [destruct H1|].
  apply dsorted_inv in H as [Hs Hf]. rewrite Forall_forall in Hf.
  destruct H1 as [->|H1], H2 as [->|H2]; [reflexivity | | | apply IH; assumption].
  - specialize (Hf _ H2). unfold ltk in Hf. rewrite E, before_irrefl in Hf. discriminate.
  - specialize (Hf _ H1). unfold ltk in Hf. rewrite E, before_irrefl in Hf. discriminate.
Qed.

(** * Seek on a sorted list = filter *)
Lemma drop_before_filter rv k l : dsorted rv l -> drop_before rv k l = filter_keys (nbk rv k) l.
Proof.
  unfold filter_keys. induction l as [|e l IH]; intro H; simpl; [reflexivity|].
  apply dsorted_inv in H as [H1 H2]. unfold nbk at 1. unfold entry, bytes in *.
  destruct (before rv (fst e) k) eqn:E; simpl; [apply IH; exact H1|].
  f_equal. symmetry. apply filter_all_true. rewrite Forall_forall in H2.
  intros x Hx. apply (nbk_up rv k (fst e)); [unfold nbk; rewrite E; reflexivity | apply H2; exact Hx].
Qed.

(** the entries at or after [k]: either the first one is [k] itself and the
    rest are those strictly after [k], or all of them are strictly after [k] *)
Lemma filter_nbk_head rv k l e r : dsorted rv l -> filter_keys (nbk rv k) l = e :: r ->
  (fst e = k -> filter_keys (afk rv k) l = r) /\ (fst e <> k -> filter_keys (afk rv k) l = e :: r).
Proof.
  intros Hs E.
  assert (Hf : filter_keys (afk rv k) l = filter_keys (afk rv k) (e :: r)).
  { rewrite <- E. symmetry. apply filter_filter_sub. intros x _. apply afk_nbk. }
  unfold filter_keys in *.
  assert (Hs' : dsorted rv (e :: r)) by (rewrite <- E; apply dsorted_filter; exact Hs).
  apply dsorted_inv in Hs' as [_ Hr]. rewrite Forall_forall in Hr.
  assert (He : nbk rv k (fst e) = true).
  { assert (I : In e (e :: r)) by (left; reflexivity). rewrite <- E in I.
    apply filter_In in I as [_ I]. exact I. }
  rewrite Hf. split; intro C; simpl.
  - rewrite C, afk_irrefl. apply filter_all_true. intros x Hx. rewrite <- C. apply Hr. exact Hx.
  - destruct (nbk_cases _ _ _ He) as [?|A]; [contradiction|]. rewrite A. f_equal.
    apply filter_all_true. intros x Hx. eapply afk_up; [exact A | apply Hr; exact Hx].
Qed.

(** in a sorted list, the entries strictly after the key of [x] in [p ++ x :: s] are [s] *)
Lemma filter_afk_split rv p x s : dsorted rv (p ++ x :: s) -> filter_keys (afk rv (fst x)) (p ++ x :: s) = s.
Proof.
  unfold filter_keys. intro H. apply dsorted_app_inv in H as (_ & Hxs & Hp).
  apply dsorted_inv in Hxs as [_ Hs]. rewrite Forall_forall in Hs.
  rewrite filter_app. simpl. rewrite afk_irrefl.
  rewrite filter_all_false, filter_all_true; [reflexivity | |].
  - intros y Hy. apply Hs. exact Hy.
  - intros y Hy. unfold afk. apply before_asym. apply (Hp y x Hy). left. reflexivity.
Qed.

(** * [take] *)
Lemma take_nil c : take c [] = [].
Proof. unfold take. destruct (c <=? 0)%Z; [reflexivity | apply firstn_nil]. Qed.

Lemma take_cons c e l : (c <> 1)%Z -> take c (e :: l) = e :: take (c - 1) l.
Proof.
  intro H. unfold take.
  destruct (c <=? 0)%Z eqn:E1.
  - apply Z.leb_le in E1. replace (c - 1 <=? 0)%Z with true; [reflexivity|].
    symmetry. apply Z.leb_le. lia.
  - apply Z.leb_gt in E1. replace (c - 1 <=? 0)%Z with false by (symmetry; apply Z.leb_gt; lia).
    replace (Z.to_nat c) with (S (Z.to_nat (c - 1))) by lia. reflexivity.
Qed.

Lemma take_one e l : take 1 (e :: l) = [e].
Proof. reflexivity. Qed.

Lemma live_rev l : live (rev l) = rev (live l).
Proof. apply filter_rev. Qed.
