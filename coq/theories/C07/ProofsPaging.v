(** C07 — the paging client run against the specification delivers the whole
    ordered view, cut into pages. *)
From Coq Require Import List NArith ZArith Bool Lia Sorted.
From C33 Require Import Lib.Harness Lib.Bytes Lib.OMap C07.Model C07.Spec C07.ProofsBase.
Import ListNotations.

(** the paging client over any "one request" function *)
Fixpoint pages_fn (pfuel : nat) (lf : bytes -> option lres) (key : bytes) : option (list (list entry)) :=
  match pfuel with
  | O => None
  | S pf =>
      match lf key with
      | Some (LEntries []) => Some []
      | Some (LEntries (e :: p)) => option_map (cons (e :: p)) (pages_fn pf lf (fst (List.last p e)))
      | _ => None
      end
  end.

Lemma pages_go_fn I op rw sk nx cu pf fuel prefix n d : forall key,
  pages_go I op rw sk nx cu pf fuel prefix key n d
  = pages_fn pf (fun k => list_raw I op rw sk nx cu fuel prefix k n d) key.
Proof.
  induction pf as [|pf IH]; intro key; simpl; [reflexivity|].
  destruct (list_raw I op rw sk nx cu fuel prefix key n d) as [[[|e p]|]|]; try reflexivity.
  rewrite IH. reflexivity.
Qed.

Lemma pages_fn_ext lf1 lf2 : (forall k, lf1 k = lf2 k) -> forall pf key, pages_fn pf lf1 key = pages_fn pf lf2 key.
Proof.
  intros H pf. induction pf as [|pf IH]; intro key; simpl; [reflexivity|].
  rewrite H. destruct (lf2 key) as [[[|e p]|]|]; try reflexivity. rewrite IH. reflexivity.
Qed.

(** one page over the ordered view [O] *)
Definition page_of (rv : bool) (O : list entry) (key : bytes) (n : Z) : list entry :=
  match key with
  | [] => take n O
  | _ :: _ => take n (filter_keys (afk rv key) O)
  end.

Lemma spec_raw_page vw key n d : ~ (n = 1 /\ d = 2)%Z ->
  spec_raw vw key n d = LEntries (page_of (negb (is_asc d)) (in_order d vw) key n).
Proof.
  intro G. unfold spec_raw, page_of. destruct key as [|b k]; [reflexivity|].
  destruct ((n =? 1)%Z && (d =? 2)%Z) eqn:E; [|reflexivity].
  apply andb_true_iff in E as [E1 E2]. apply Z.eqb_eq in E1. apply Z.eqb_eq in E2. tauto.
Qed.

Definition good_pages (n : Z) (pages : list (list entry)) : Prop :=
  Forall (fun p => p <> [] /\ (Z.of_nat (length p) <= n)%Z) pages.

Lemma last_cons_default {A} (e : A) p : List.last (e :: p) e = List.last p e.
Proof. destruct p; reflexivity. Qed.

Section Paging.
Variable rv : bool.
Variable O : list entry.
Variable n : Z.
Hypothesis HO : dsorted rv O.
Hypothesis Hne : forall e, In e O -> fst e <> [].
Hypothesis Hn : (1 <= n)%Z.

Lemma paging_suffix : forall pf S P key,
  O = P ++ S ->
  (P = [] /\ key = []) \/ (exists P' x, P = P' ++ [x] /\ key = fst x) ->
  (length S < pf)%nat ->
  exists pages, pages_fn pf (fun k => Some (LEntries (page_of rv O k n))) key = Some pages
                /\ concat pages = S /\ good_pages n pages.
Proof.
  induction pf as [|pf IH]; intros S P key HS HP Hlen; [lia|].
  assert (Hpage : page_of rv O key n = firstn (Z.to_nat n) S).
  { unfold page_of, take. replace (n <=? 0)%Z with false by (symmetry; apply Z.leb_gt; lia).
    destruct HP as [[-> ->]|(P' & x & -> & ->)].
    - simpl in HS. subst. reflexivity.
    - assert (Hx : fst x <> []).
      { apply Hne. rewrite HS. apply in_or_app. left. apply in_or_app. right. left. reflexivity. }
      destruct (fst x) as [|b k] eqn:Ex; [contradiction|]. rewrite <- Ex.
      rewrite <- app_assoc in HS. simpl in HS.
      rewrite HS. rewrite filter_afk_split; [reflexivity | rewrite <- HS; exact HO]. }
  cbn [pages_fn]. rewrite Hpage.
  destruct S as [|e S0].
  - rewrite firstn_nil. exists []. repeat split. constructor.
  - destruct (Z.to_nat n) as [|k] eqn:Ek; [lia|]. cbn [firstn].
    set (p := firstn k S0).
    assert (Hsplit : e :: S0 = (e :: p) ++ skipn k S0).
    { simpl. f_equal. unfold p. symmetry. apply firstn_skipn. }
    assert (Hrl : e :: p = removelast (e :: p) ++ [List.last p e]).
    { rewrite <- last_cons_default. apply app_removelast_last. discriminate. }
    destruct (IH (skipn k S0) (P ++ e :: p) (fst (List.last p e))) as (pages & Hpg & Hcat & Hgood).
    + rewrite HS, Hsplit. rewrite <- app_assoc. reflexivity.
    + right. exists (P ++ removelast (e :: p)), (List.last p e).
      split; [|reflexivity]. rewrite Hrl at 1. rewrite app_assoc. reflexivity.
    + rewrite skipn_length. simpl in Hlen. lia.
    + exists ((e :: p) :: pages). rewrite Hpg. cbn [option_map]. repeat split.
      * simpl. rewrite Hcat. f_equal. apply firstn_skipn.
      * constructor; [|exact Hgood]. split; [discriminate|].
        simpl. unfold p. pose proof (firstn_le_length k S0). lia.
Qed.
End Paging.
