(** C07 — correspondence cases: what the Go implementation returned. *)
From Coq Require Import List NArith ZArith Bool String Ascii.
From C33 Require Import Lib.Harness Lib.Bytes Lib.OMap C07.Model C07.Spec.
Import ListNotations.

(** Compact literals (one string token per list keeps the case files fast to
    parse): [hb "6162,,ff,"] = the byte strings "ab", "", "\xff" (every item is
    followed by a comma); [ly] reads such a list as key, value, key, value, ... *)
Fixpoint hb_go (s : string) (cur : list N) (acc : list (list N)) : list (list N) :=
  match s with
  | EmptyString => rev acc
  | String a tl =>
      if Ascii.eqb a ","%char then hb_go tl [] (rev cur :: acc)
      else match tl with
           | String b tl' => hb_go tl' ((16 * hexval a + hexval b)%N :: cur) acc
           | EmptyString => rev acc
           end
  end.
Definition hb (s : string) : list (list N) := hb_go s [] [].

Fixpoint pairs_of (l : list (list N)) : list (list N * list N) :=
  match l with
  | k :: v :: tl => (k, v) :: pairs_of tl
  | _ => []
  end.
Definition ly (s : string) : list (list N * list N) := pairs_of (hb s).

(** Long keys.  A case whose keys share a long common stem gives the stem once, run-length
    encoded ([rl [(97, 150); (255, 2)]] = 150 times "a", then ff ff), and writes every byte
    string with three markers next to the hex digits: [S] = the stem, [T] = the stem without its
    last byte (so the stem's successor is "T" + one byte), [U] = the stem without its last two
    bytes.  The case term is
    [(let s := rl [...] in CList true [lys s "S01,31S01,"] (h1s s "S,") ...)].  Only the text of
    the case files gets shorter: the expanded byte strings are ordinary [bytes], and [CSelf]
    cases compare the expansion with the same byte strings written in plain hex. *)
Definition rl (runs : list (N * N)) : list N :=
  flat_map (fun r => repeat (fst r) (N.to_nat (snd r))) runs.

(** [rs] / [rt] / [ru]: the stem / the stem without its last byte / last two bytes, reversed *)
Fixpoint hbs_go (rs rt ru : list N) (s : string) (cur : list N) (acc : list (list N)) : list (list N) :=
  match s with
  | EmptyString => rev acc
  | String a tl =>
      if Ascii.eqb a ","%char then hbs_go rs rt ru tl [] (rev cur :: acc)
      else if Ascii.eqb a "S"%char then hbs_go rs rt ru tl (rs ++ cur) acc
      else if Ascii.eqb a "T"%char then hbs_go rs rt ru tl (rt ++ cur) acc
      else if Ascii.eqb a "U"%char then hbs_go rs rt ru tl (ru ++ cur) acc
      else match tl with
           | String b tl' => hbs_go rs rt ru tl' ((16 * hexval a + hexval b)%N :: cur) acc
           | EmptyString => rev acc
           end
  end.
Definition hbs (stem : list N) (s : string) : list (list N) :=
  hbs_go (rev stem) (rev (removelast stem)) (rev (removelast (removelast stem))) s [] [].
Definition lys (stem : list N) (s : string) : list (list N * list N) := pairs_of (hbs stem s).
(** one byte string: [h1s stem "S6162,"] *)
Definition h1s (stem : list N) (s : string) : list N := hd [] (hbs stem s).

(** [merged = false]: ListHelper directly on one GoMemDB / GoLevelDB ([layers] has one element);
    [merged = true]: ListHelper on NewMergedIteratorDB(layers). *)
Inductive case :=
| CList (merged : bool) (layers : list store) (prefix key : bytes) (count d : Z) (impl : list bytes)
    (* ListHelper.List(prefix, key, count, d) *)
| CCount (merged : bool) (layers : list store) (prefix : bytes) (impl : Z)
    (* ListHelper.PrefixCount(prefix) *)
| CPages (merged : bool) (layers : list store) (prefix : bytes) (n d : Z)
         (impl : option (list (list bytes)))
    (* a client paging with page size n: key = "" first, then the key of the last entry
       of the previous page, until an empty page; None = "did not terminate": still not
       finished after [fuel_of layers] requests (the harness stops asking then) *)
| CSelf (expanded plain : list bytes).
    (* self-check of the long-key literals: the stem notation and plain hex give the same bytes *)

Definition lb_eqb := list_eqb bytes_eqb.
Definition pages_eqb := list_eqb lb_eqb.

Definition the_db (layers : list store) : store := match layers with m :: _ => m | [] => [] end.

Definition shape_ok (merged : bool) (layers : list store) : bool :=
  forallb wf_storeb layers && (merged || (List.length layers =? 1)%nat).

(** known findings.
    1 = the prefix's upper bound is types.EmptyValue, the iterator's range is left open above and
        the listing continues into the keys above the prefix: signature = [prefix_ok] fails and the
        implementation's answer is exactly the spec's answer over "all keys >= prefix";
    2 = paging cannot continue after the empty key (a request with an empty key starts over):
        signature = the client did not finish, the empty key is live in the view, and the request
        that returns it is followed by another one (descending order, or page size 1). *)
Definition view_open (layers : list store) (prefix : bytes) : list entry :=
  live (filter (fun e => bleb prefix (fst e)) (overlay layers)).

Definition has_empty_live (layers : list store) (prefix : bytes) : bool :=
  existsb (fun e => match fst e with [] => true | _ => false end) (view layers prefix).

Definition pages_spec (vw : list entry) (n d : Z) (pages : list (list bytes)) : bool :=
  lb_eqb (List.concat pages) (map (collect d) (in_order d vw))
  && forallb (fun p => match p with [] => false | _ => true end) pages
  && ((n <=? 0)%Z || forallb (fun p => (Z.of_nat (List.length p) <=? n)%Z) pages).

Definition check_case (c : case) : verdict :=
  match c with
  | CList merged layers prefix key count d impl =>
      let model := if merged then mg_list layers prefix key count d
                   else db_list (the_db layers) prefix key count d in
      let m := shape_ok merged layers && option_eqb lb_eqb model (Some impl) in
      let s := lb_eqb impl (spec_list layers prefix key count d) in
      let kf := if negb (prefix_ok prefix)
                   && lb_eqb impl (spec_list_v (view_open layers prefix) key count d)
                then 1%N else 0%N in
      (m, s, kf)
  | CCount merged layers prefix impl =>
      let model := if merged then mg_prefix_count layers prefix
                   else db_prefix_count (the_db layers) prefix in
      let m := shape_ok merged layers && option_eqb Z.eqb model (Some impl) in
      let s := (impl =? spec_count layers prefix)%Z in
      let kf := if negb (prefix_ok prefix)
                   && (impl =? Z.of_nat (List.length (view_open layers prefix)))%Z
                then 1%N else 0%N in
      (m, s, kf)
  | CPages merged layers prefix n d impl =>
      let model := if merged then mg_pages layers prefix n d
                   else db_pages (the_db layers) prefix n d in
      let model_enc := option_map (map (map (collect d))) model in
      let m := shape_ok merged layers && option_eqb pages_eqb model_enc impl in
      let s := match impl with
               | None => false
               | Some pages => pages_spec (view layers prefix) n d pages
               end in
      let kf := match impl with
                | Some pages =>
                    if negb (prefix_ok prefix) && pages_spec (view_open layers prefix) n d pages
                    then 1%N else 0%N
                | None =>
                    if prefix_ok prefix && has_empty_live layers prefix
                       && (negb (is_asc d) || (n =? 1)%Z || (List.length (view layers prefix) =? 1)%nat)
                    then 2%N else 0%N
                end in
      (m, s, kf)
  | CSelf expanded plain =>
      let ok := lb_eqb expanded plain in (ok, ok, 0%N)
  end.
