(** C07 — ListHelper over one goLevelDBIt equals the specification over the
    entries inside the iterator's range. *)
From Coq Require Import List NArith ZArith Bool Lia Sorted.
From C33 Require Import Lib.Harness Lib.Bytes Lib.OMap C07.Model C07.Spec C07.ProofsBase.
Import ListNotations.

Lemma scan_loop_db all rv : forall l fuel i count, (length l < fuel)%nat ->
  scan_loop dbit db_next db_cur fuel (mk_dbit all rv (PRem l)) i count
  = Some (take (count - i) (live l)).
Proof.
  induction l as [|e l IH]; intros fuel i count Hf; destruct fuel as [|f]; try (simpl in Hf; lia).
  - simpl. rewrite take_nil. reflexivity.
  - cbn [scan_loop db_cur di_pos]. unfold live. cbn [filter].
    destruct (isdeleted (snd e)) eqn:D; cbn [negb].
    + unfold db_next, set_pos. cbn [di_pos di_all di_rev]. apply IH. simpl in Hf. lia.
    + destruct (i + 1 =? count)%Z eqn:E.
      * apply Z.eqb_eq in E. replace (count - i)%Z with 1%Z by lia. reflexivity.
      * apply Z.eqb_neq in E. unfold db_next, set_pos. cbn [di_pos di_all di_rev].
        rewrite IH by (simpl in Hf; lia). cbn [option_map].
        rewrite take_cons by lia. do 3 f_equal. lia.
Qed.

Lemma skip_deleted_db all rv : forall l fuel, (length l < fuel)%nat ->
  skip_deleted dbit db_next db_cur fuel (mk_dbit all rv (PRem l)) = Some (hd_error (live l)).
Proof.
  induction l as [|e l IH]; intros fuel Hf; destruct fuel as [|f]; try (simpl in Hf; lia).
  - reflexivity.
  - cbn [skip_deleted db_cur di_pos]. unfold live. cbn [filter].
    destruct (isdeleted (snd e)) eqn:D; cbn [negb]; [|reflexivity].
    unfold db_next, set_pos. cbn [di_pos di_all di_rev]. apply IH. simpl in Hf. lia.
Qed.

Lemma count_loop_db all rv : forall l fuel, (length l < fuel)%nat ->
  count_loop dbit db_next db_cur fuel (mk_dbit all rv (PRem l)) = Some (Z.of_nat (length (live l))).
Proof.
  induction l as [|e l IH]; intros fuel Hf; destruct fuel as [|f]; try (simpl in Hf; lia).
  - reflexivity.
  - cbn [count_loop db_cur di_pos]. unfold live. cbn [filter].
    unfold db_next, set_pos. cbn [di_pos di_all di_rev].
    destruct (isdeleted (snd e)) eqn:D; cbn [negb]; rewrite IH by (simpl in Hf; lia);
      [reflexivity|]. unfold live. cbn [option_map length]. f_equal. lia.
Qed.

Lemma length_filter_le {A} (f : A -> bool) l : (length (filter f l) <= length l)%nat.
Proof. induction l as [|x l IH]; simpl; [lia|]. destruct (f x); simpl; lia. Qed.

(** the entries of the iterator, in iteration order *)
Definition dir_list (rv : bool) (L : list entry) : list entry := if rv then rev L else L.

Lemma dsorted_dir_list rv (L : store) : sorted L -> dsorted rv (dir_list rv L).
Proof. apply dsorted_dir. Qed.

Lemma dir_list_length rv L : length (dir_list rv L) = length L.
Proof. destruct rv; simpl; [apply rev_length | reflexivity]. Qed.

Lemma live_dir_list d L : live (dir_list (negb (is_asc d)) L) = in_order d (live L).
Proof. unfold dir_list, in_order. destruct (is_asc d); simpl; [reflexivity | apply live_rev]. Qed.

Lemma live_filter_keys g l : live (filter_keys g l) = filter_keys g (live l).
Proof. unfold live, filter_keys. apply filter_comm. Qed.

Section OneDb.
Variable m : store.
Variable prefix : bytes.
Hypothesis Hsorted : sorted m.
Let L := range_of prefix m.

Lemma L_sorted : sorted L.
Proof. apply range_filter_sorted. exact Hsorted. Qed.

Lemma L_length : (length L <= length m)%nat.
Proof. apply length_filter_le. Qed.

Lemma db_open_eq rv : db_open m prefix rv = mk_dbit (dir_list rv L) rv PFresh.
Proof. reflexivity. Qed.

Theorem db_list_raw_spec fuel key count d : (S (length m) < fuel)%nat ->
  list_raw dbit (db_open m) db_rewind db_seek db_next db_cur fuel prefix key count d
  = Some (spec_raw (live L) key count d).
Proof.
  intro Hf. pose proof L_length as HL. pose proof L_sorted as HS.
  unfold list_raw, spec_raw. destruct key as [|b key'].
  - (* from the first / last entry *)
    unfold scan_from_end. rewrite db_open_eq. unfold db_rewind, set_pos. cbn [di_all di_rev].
    rewrite scan_loop_db by (rewrite dir_list_length; lia).
    rewrite Z.sub_0_r, live_dir_list. reflexivity.
  - set (key := b :: key').
    destruct ((count =? 1)%Z && (d =? 2)%Z) eqn:Sk.
    + (* nextKeyValue *)
      unfold next_key_value. rewrite db_open_eq. unfold db_seek, set_pos. cbn [di_all di_rev].
      rewrite drop_before_filter by (apply dsorted_dir_list; exact HS).
      rewrite skip_deleted_db.
      2:{ eapply Nat.le_lt_trans; [apply length_filter_le|]. rewrite dir_list_length. lia. }
      cbn [option_map]. do 3 f_equal. rewrite live_filter_keys. unfold dir_list.
      rewrite live_rev. unfold filter_keys. apply filter_ext. intro e. unfold nbk. simpl.
      symmetry. apply bleb_nbltb.
    + (* IteratorScan *)
      unfold iterator_scan. rewrite db_open_eq. unfold db_seek, set_pos. cbn [di_all di_rev].
      set (rv := negb (is_asc d)). set (A := dir_list rv L).
      assert (HA : dsorted rv A) by (apply dsorted_dir_list; exact HS).
      rewrite drop_before_filter by exact HA.
      assert (Hgoal : strictly_after d key (in_order d (live L)) = live (filter_keys (afk rv key) A)).
      { rewrite live_filter_keys. unfold A, rv. rewrite live_dir_list. reflexivity. }
      rewrite Hgoal. cbn [option_map].
      destruct (filter_keys (nbk rv key) A) as [|e r] eqn:EF; cbn [db_cur di_pos].
      * assert (Z0 : filter_keys (afk rv key) A = []).
        { replace (filter_keys (afk rv key) A) with (filter_keys (afk rv key) (filter_keys (nbk rv key) A)).
          - rewrite EF. reflexivity.
          - apply filter_filter_sub. intros x _. apply afk_nbk. }
        rewrite Z0. unfold live. simpl. rewrite take_nil. reflexivity.
      * destruct (filter_nbk_head rv key A e r HA EF) as [H1 H2].
        assert (Hlen : (length (e :: r) <= length m)%nat).
        { rewrite <- EF. eapply Nat.le_trans; [apply length_filter_le|]. unfold A.
          rewrite dir_list_length. exact HL. }
        destruct (bytes_eq_dec (fst e) key) as [EK|EK].
        -- match goal with |- context [beqb ?a ?b] =>
             replace (beqb a b) with true by (symmetry; apply beqb_eq; exact EK) end.
           rewrite (H1 EK).
           unfold db_next, set_pos. cbn [di_pos di_all di_rev].
           rewrite scan_loop_db by (simpl in Hlen; unfold entry, bytes in *; lia). rewrite Z.sub_0_r. reflexivity.
        -- match goal with |- context [beqb ?a ?b] =>
             replace (beqb a b) with false by (symmetry; apply beqb_neq; exact EK) end.
           rewrite (H2 EK).
           rewrite scan_loop_db by (simpl in Hlen; simpl; unfold entry, bytes in *; lia). rewrite Z.sub_0_r. reflexivity.
Qed.

Theorem db_prefix_count_spec fuel : (S (length m) < fuel)%nat ->
  prefix_count dbit (db_open m) db_rewind db_next db_cur fuel prefix
  = Some (Z.of_nat (length (live L))).
Proof.
  intro Hf. pose proof L_length as HL.
  unfold prefix_count. rewrite db_open_eq. unfold db_rewind, set_pos. cbn [di_all di_rev].
  rewrite count_loop_db by (rewrite dir_list_length; lia).
  unfold dir_list. rewrite live_rev, rev_length. reflexivity.
Qed.
End OneDb.

(** * the iterator's range is the set of keys with the prefix *)
Lemma prefix_ok_resolve p : prefix_ok p = true -> resolve_end p = succ_prefix p.
Proof.
  unfold prefix_ok, resolve_end. destruct (succ_prefix p) as [e|]; [|reflexivity].
  intro H. apply negb_true_iff in H. rewrite H. reflexivity.
Qed.

Lemma range_of_under p (m : store) :
  wf_bytes p -> prefix_ok p = true -> Forall (fun e => wf_bytes (fst e)) m ->
  range_of p m = under p m.
Proof.
  intros Wp Hp Wm. unfold range_of, under, range_filter, filter_keys.
  rewrite (prefix_ok_resolve p Hp). apply filter_ext_in. intros e He.
  rewrite Forall_forall in Wm. specialize (Wm e He).
  rewrite (is_prefix_charb p (fst e) Wp Wm). unfold in_range, below_succb.
  reflexivity.
Qed.
