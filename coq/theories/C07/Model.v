(** C07 — executable model of chain33's paged listing as it is:
    common/db/list_helper.go (ListHelper.List / IteratorScan / iteratorScan /
    nextKeyValue / PrefixCount / collector) and common/db/merge_iter.go
    (mergedIterator: Rewind / Seek / selectKey / Next / next / Key / Value),
    over the goLevelDBIt wrapper (go_level_db.go, used by GoLevelDB and GoMemDB).

    A database is a strictly sorted association list ([Lib.OMap]); an empty
    value is what [Set(k, nil)] stores (the tombstone of LocalDB).

    Library oracle (goleveldb memdb.dbIter / leveldb.dbIter over
    util.Range{Start, Limit}): the iterator ranges over the entries with
    Start <= key < Limit in key order; Seek(k) = first entry >= k (EOI if none);
    Prev from EOI = Last, from the first entry = SOI (stays there); Next from
    the initial state = First, from the last entry = EOI (stays there). *)
From Coq Require Import String.
From Coq Require Import List NArith ZArith Bool.
From C33 Require Import Lib.Harness Lib.Bytes Lib.OMap.
Import ListNotations.

Definition entry : Type := (bytes * bytes)%type.
Definition store : Type := list entry.

(** types.EmptyValue: an iterator end bound equal to it is replaced by "none". *)
Definition empty_value : bytes := bs "FFFFFFFFemptyBVBiCj5jvE15pEiwro8TQRGnJSNsJF"%string.

(** GoLevelDB.Iterator / GoMemDB.Iterator with end == nil:
    end = bytesPrefix(start); if bytes.Equal(end, EmptyValue) { end = nil } *)
Definition resolve_end (start : bytes) : option bytes :=
  match succ_prefix start with
  | Some e => if beqb e empty_value then None else Some e
  | None => None
  end.

Definition range_of (prefix : bytes) (m : store) : store :=
  range_filter (Some prefix) (resolve_end prefix) m.

(** * goLevelDBIt in one direction

    The wrapper only ever moves the library iterator in one direction
    (forward: First/Seek/Next, reverse: Last/Seek+Prev/Prev), so its state is
    the list of remaining entries in iteration order, current entry first.
    [PFresh] is the state right after creation. *)
Inductive pos := PFresh | PRem (l : list entry).

Record dbit := mk_dbit {
  di_all : list entry;   (* entries inside the range, in iteration order *)
  di_rev : bool;
  di_pos : pos }.

Definition db_open (m : store) (prefix : bytes) (rv : bool) : dbit :=
  let L := range_of prefix m in
  mk_dbit (if rv then rev L else L) rv PFresh.

Definition set_pos (it : dbit) (p : pos) : dbit := mk_dbit (di_all it) (di_rev it) p.

(** [before rv a b]: key [a] comes strictly before key [b] in iteration order. *)
Definition before (rv : bool) (a b : bytes) : bool := if rv then bltb b a else bltb a b.

Fixpoint drop_before (rv : bool) (k : bytes) (l : list entry) : list entry :=
  match l with
  | [] => []
  | e :: tl => if before rv (fst e) k then drop_before rv k tl else l
  end.

(** Rewind(): reverse ? Last() && Valid() : First() && Valid() *)
Definition db_rewind (it : dbit) : dbit := set_pos it (PRem (di_all it)).

(** Seek(key): exist := Iterator.Seek(key); if reverse && !bytes.Equal(Key(), key)
    { return Prev() && Valid() }; return exist.
    forward: first entry >= key.  reverse: the library lands on the first entry
    >= key; when that is not key itself (or there is none: Key() = nil, Prev from
    EOI = Last) one step back gives the greatest entry < key; so in both cases
    the greatest entry <= key.  In iteration order: drop the entries strictly
    before key. *)
Definition db_seek (it : dbit) (k : bytes) : dbit :=
  set_pos it (PRem (drop_before (di_rev it) k (di_all it))).

(** Next(): reverse ? Prev() && Valid() : Next() && Valid() *)
Definition db_next (it : dbit) : dbit :=
  set_pos it
    match di_pos it with
    | PFresh => if di_rev it then PRem [] else PRem (di_all it)
    | PRem [] => PRem []
    | PRem (_ :: tl) => PRem tl
    end.

(** Valid() / Key() / Value(): [Some (key, value)] iff valid.  (Valid() also
    calls checkKey(Key()), which holds for every entry inside the range.) *)
Definition db_cur (it : dbit) : option entry :=
  match di_pos it with
  | PRem (e :: _) => Some e
  | _ => None
  end.

(** * mergedIterator (merge_iter.go) *)
Inductive mdir := DSOI | DEOI | DForward | DSeek | DFuel.
(* DFuel: the model's out-of-fuel marker for Next's loop; never reached (see Proofs). *)

Record miter := mk_miter {
  mi_its : list dbit;
  mi_rev : bool;
  mi_keys : list (option bytes);
  mi_prev : bytes;
  mi_index : nat;
  mi_dir : mdir }.

Definition set_dir (m : miter) (d : mdir) : miter :=
  mk_miter (mi_its m) (mi_rev m) (mi_keys m) (mi_prev m) (mi_index m) d.
Definition set_prev (m : miter) (p : bytes) : miter :=
  mk_miter (mi_its m) (mi_rev m) (mi_keys m) p (mi_index m) (mi_dir m).
Definition set_index (m : miter) (i : nat) : miter :=
  mk_miter (mi_its m) (mi_rev m) (mi_keys m) (mi_prev m) i (mi_dir m).
Definition set_its (m : miter) (its : list dbit) (keys : list (option bytes)) : miter :=
  mk_miter its (mi_rev m) keys (mi_prev m) (mi_index m) (mi_dir m).

Definition cur_key (it : dbit) : option bytes := option_map fst (db_cur it).

(** NewMergedIterator: reverse := true; if len(iters) >= 2 { reverse = iters[0].IsReverse() };
    keys all nil, prevKey = make([]byte, 128), dir = 0 = dirSOI. *)
Definition mi_new (its : list dbit) (rv : bool) : miter :=
  mk_miter its (if (2 <=? length its)%nat then rv else true)
           (map (fun _ => None) its) (repeat 0%N 128) 0 DSOI.

(** mergedIteratorDB.Iterator(start, end, reverse) *)
Definition mi_open (layers : list store) (prefix : bytes) (rv : bool) : miter :=
  mi_new (map (fun m => db_open m prefix rv) layers) rv.

(** compare (both keys non-nil): cmp.Compare, negated when reverse *)
Definition mcompare (rv : bool) (a b : bytes) : comparison :=
  if rv then CompOpp (bcmp a b) else bcmp a b.

(** selectKey's loop: for x, tkey := range keys
      { if tkey != nil && (key == nil || compare(tkey, key) < 0) { key = tkey; index = x } } *)
Fixpoint select_go (rv : bool) (keys : list (option bytes)) (x : nat)
         (key : option bytes) (idx : nat) : option bytes * nat :=
  match keys with
  | [] => (key, idx)
  | None :: tl => select_go rv tl (S x) key idx
  | Some t :: tl =>
      let take := match key with
                  | None => true
                  | Some k => match mcompare rv t k with Lt => true | _ => false end
                  end in
      if take then select_go rv tl (S x) (Some t) x else select_go rv tl (S x) key idx
  end.

Definition is_soi (d : mdir) : bool := match d with DSOI => true | _ => false end.

Definition select_key (m : miter) : miter * bool :=
  let '(key, idx) := select_go (mi_rev m) (mi_keys m) 0 None (mi_index m) in
  let m1 := set_index m idx in
  match key with
  | None => (set_dir m1 DEOI, false)
  | Some k =>
      let m2 := if is_soi (mi_dir m1) then set_prev m1 k else m1 in
      (set_dir m2 DForward, true)
  end.

(** Rewind *)
Definition mi_rewind (m : miter) : miter * bool :=
  let its := map db_rewind (mi_its m) in
  select_key (set_dir (set_its m its (map cur_key its)) DSOI).

(** Seek *)
Definition mi_seek (m : miter) (k : bytes) : miter * bool :=
  let its := map (fun it => db_seek it k) (mi_its m) in
  let '(m1, ok) := select_key (set_dir (set_its m its (map cur_key its)) DSOI) in
  if ok then (set_dir m1 DSeek, true) else (set_dir m1 DSOI, false).

Fixpoint upd_nth {A} (l : list A) (n : nat) (a : A) : list A :=
  match l, n with
  | [], _ => []
  | _ :: tl, O => a :: tl
  | x :: tl, S n' => x :: upd_nth tl n' a
  end.

(** next(): advance iters[index], refresh keys[index], selectKey *)
Definition mi_next_inner (m : miter) : miter * bool :=
  match mi_dir m with
  | DEOI | DFuel => (m, false)
  | _ =>
      match nth_error (mi_its m) (mi_index m) with
      | None => (m, false)          (* index is always in range *)
      | Some it =>
          let it' := db_next it in
          select_key (set_its m (upd_nth (mi_its m) (mi_index m) it')
                              (upd_nth (mi_keys m) (mi_index m) (cur_key it')))
      end
  end.

Definition mi_valid (m : miter) : bool :=
  match mi_dir m with DForward | DSeek => true | _ => false end.

(** Key() = keys[index]; Value() = iters[index].Value() *)
Definition mi_key (m : miter) : option bytes :=
  if mi_valid m then nth (mi_index m) (mi_keys m) None else None.

Definition mi_cur (m : miter) : option entry :=
  match mi_key m, nth_error (mi_its m) (mi_index m) with
  | Some k, Some it => Some (k, match db_cur it with Some e => snd e | None => [] end)
  | _, _ => None
  end.

(** Next(): for { if dir == dirSOI { return Rewind() }; if !next() { return false };
                 currKey := Key(); if compare(currKey, prevKey) != 0 { updatePrevKey; return true } } *)
Fixpoint mi_next_go (fuel : nat) (m : miter) : miter * bool :=
  match fuel with
  | O => (set_dir m DFuel, false)
  | S f =>
      if is_soi (mi_dir m) then mi_rewind m
      else
        let '(m1, ok) := mi_next_inner m in
        if negb ok then (m1, false)
        else match mi_key m1 with
             | Some ck =>
                 match mcompare (mi_rev m1) ck (mi_prev m1) with
                 | Eq => mi_next_go f m1
                 | _ => (set_prev m1 ck, true)
                 end
             | None => (m1, false)
             end
  end.

(** every pass of the loop moves one layer past prevKey: #layers + 1 passes suffice *)
Definition mi_next (m : miter) : miter * bool := mi_next_go (S (length (mi_its m))) m.

(** * ListHelper over any IteratorDB *)
Definition is_asc (d : Z) : bool := (Z.land d 1 =? 1)%Z.
Definition isdeleted (v : bytes) : bool := match v with [] => true | _ => false end.

Section ListHelper.
Variable I : Type.
Variable it_open : bytes -> bool -> I.     (* db.Iterator(prefix, nil, reverse) *)
Variable it_rewind : I -> I.
Variable it_seek : I -> bytes -> I.
Variable it_next : I -> I.
Variable it_cur : I -> option entry.       (* Valid() ? Some (Key(), Value()) : None *)

(** for ; it.Valid(); it.Next() { if isdeleted(Value) { continue }; collect; i++; if i == count { break } }
    ([i] and [count] are int32 in Go; fewer than 2^31 entries are assumed.)
    [None] = out of fuel. *)
Fixpoint scan_loop (fuel : nat) (it : I) (i count : Z) : option (list entry) :=
  match fuel with
  | O => None
  | S f =>
      match it_cur it with
      | None => Some []
      | Some e =>
          if isdeleted (snd e) then scan_loop f (it_next it) i count
          else if (i + 1 =? count)%Z then Some [e]
          else option_map (cons e) (scan_loop f (it_next it) (i + 1)%Z count)
      end
  end.

(** iteratorScan (IteratorScanFromFirst / IteratorScanFromLast) *)
Definition scan_from_end (fuel : nat) (prefix : bytes) (count : Z) (rv : bool) : option (list entry) :=
  scan_loop fuel (it_rewind (it_open prefix rv)) 0 count.

(** IteratorScan *)
Definition iterator_scan (fuel : nat) (prefix key : bytes) (count d : Z) : option (list entry) :=
  let it := it_seek (it_open prefix (negb (is_asc d))) key in
  match it_cur it with
  | None => Some []
  | Some e =>
      let it1 := if beqb (fst e) key then it_next it else it in
      scan_loop fuel it1 0 count
  end.

(** nextKeyValue: reverse iterator, Seek(key), skip deleted, return [key, value] *)
Fixpoint skip_deleted (fuel : nat) (it : I) : option (option entry) :=
  match fuel with
  | O => None
  | S f =>
      match it_cur it with
      | None => Some None
      | Some e => if isdeleted (snd e) then skip_deleted f (it_next it) else Some (Some e)
      end
  end.

Definition next_key_value (fuel : nat) (prefix key : bytes) : option (option entry) :=
  skip_deleted fuel (it_seek (it_open prefix true) key).

Inductive lres := LEntries (l : list entry) | LSeek (r : option entry).

(** List(prefix, key, count, direction) *)
Definition list_raw (fuel : nat) (prefix key : bytes) (count d : Z) : option lres :=
  match key with
  | _ :: _ =>
      if ((count =? 1) && (d =? 2))%Z then option_map LSeek (next_key_value fuel prefix key)
      else option_map LEntries (iterator_scan fuel prefix key count d)
  | [] => option_map LEntries (scan_from_end fuel prefix count (negb (is_asc d)))
  end.

(** PrefixCount: reverse iterator, Rewind, count the non-deleted entries *)
Fixpoint count_loop (fuel : nat) (it : I) : option Z :=
  match fuel with
  | O => None
  | S f =>
      match it_cur it with
      | None => Some 0%Z
      | Some e =>
          if isdeleted (snd e) then count_loop f (it_next it)
          else option_map Z.succ (count_loop f (it_next it))
      end
  end.

Definition prefix_count (fuel : nat) (prefix : bytes) : option Z :=
  count_loop fuel (it_rewind (it_open prefix true)).

(** The paging client: first request with an empty key, every further request
    with the key of the last entry of the previous page, until an empty page. *)
Fixpoint pages_go (pfuel fuel : nat) (prefix key : bytes) (n d : Z) : option (list (list entry)) :=
  match pfuel with
  | O => None
  | S pf =>
      match list_raw fuel prefix key n d with
      | Some (LEntries []) => Some []
      | Some (LEntries (e :: p)) =>
          option_map (cons (e :: p)) (pages_go pf fuel prefix (fst (List.last p e)) n d)
      | _ => None
      end
  end.
End ListHelper.


(** * collector encodings *)
Fixpoint varint_go (fuel : nat) (n : N) : bytes :=
  match fuel with
  | O => []
  | S f => if (n <? 128)%N then [n] else (N.lor (N.land n 127) 128) :: varint_go f (N.shiftr n 7)
  end.
Definition varint (n : N) : bytes := varint_go 10 n.

(** types.Encode(&types.KeyValue{Key, Value}): proto3, empty fields omitted *)
Definition pb_bytes_field (tag : N) (b : bytes) : bytes :=
  match b with
  | [] => []
  | _ => tag :: varint (N.of_nat (length b)) ++ b
  end.
Definition pb_kv (k v : bytes) : bytes := pb_bytes_field 10 k ++ pb_bytes_field 18 v.

Definition collect (d : Z) (e : entry) : bytes :=
  if negb (Z.land d 8 =? 0)%Z then fst e
  else if negb (Z.land d 4 =? 0)%Z then pb_kv (fst e) (snd e)
  else snd e.

Definition encode_res (d : Z) (r : lres) : list bytes :=
  match r with
  | LEntries l => map (collect d) l
  | LSeek None => []
  | LSeek (Some e) => [fst e; snd e]
  end.

(** * Instances *)

(** a single GoMemDB / GoLevelDB *)
Definition fuel_of (layers : list store) : nat :=
  S (S (fold_right (fun m a => length m + a)%nat 0%nat layers)).

Definition db_list (m : store) (prefix key : bytes) (count d : Z) : option (list bytes) :=
  option_map (encode_res d)
    (list_raw dbit (db_open m) db_rewind db_seek db_next db_cur (fuel_of [m]) prefix key count d).

Definition db_prefix_count (m : store) (prefix : bytes) : option Z :=
  prefix_count dbit (db_open m) db_rewind db_next db_cur (fuel_of [m]) prefix.

Definition db_pages (m : store) (prefix : bytes) (n d : Z) : option (list (list entry)) :=
  pages_go dbit (db_open m) db_rewind db_seek db_next db_cur (fuel_of [m]) (fuel_of [m]) prefix [] n d.

(** NewListHelper(NewMergedIteratorDB(layers)) *)
Definition mg_rewind (m : miter) : miter := fst (mi_rewind m).
Definition mg_seek (m : miter) (k : bytes) : miter := fst (mi_seek m k).
Definition mg_next (m : miter) : miter := fst (mi_next m).

Definition mg_list (layers : list store) (prefix key : bytes) (count d : Z) : option (list bytes) :=
  option_map (encode_res d)
    (list_raw miter (mi_open layers) mg_rewind mg_seek mg_next mi_cur (fuel_of layers) prefix key count d).

Definition mg_prefix_count (layers : list store) (prefix : bytes) : option Z :=
  prefix_count miter (mi_open layers) mg_rewind mg_next mi_cur (fuel_of layers) prefix.

Definition mg_pages (layers : list store) (prefix : bytes) (n d : Z) : option (list (list entry)) :=
  pages_go miter (mi_open layers) mg_rewind mg_seek mg_next mi_cur
           (fuel_of layers) (fuel_of layers) prefix [] n d.
