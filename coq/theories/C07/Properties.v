(** C07 — property theorems only. *)
From Coq Require Import List ZArith Bool.
From C33 Require Import Lib.Bytes Lib.OMap C07.Model C07.Spec C07.ProofsPaging C07.Proofs.
Import ListNotations.

(** ListHelper over the merge of the layers = ListHelper over the single map [overlay layers] *)
Theorem C07_merged_eq_overlay : forall layers prefix key count d,
  Forall wf_store layers ->
  mg_list layers prefix key count d = db_list (overlay layers) prefix key count d
  /\ mg_prefix_count layers prefix = db_prefix_count (overlay layers) prefix.
Proof. exact mg_eq_db. Qed.
Print Assumptions C07_merged_eq_overlay.

(** every single List request (any key, count, direction word) answers as specified *)
Theorem C07_list_spec_partial : forall layers prefix key count d,
  Forall wf_store layers -> wf_bytes prefix -> prefix_ok prefix = true ->
  mg_list layers prefix key count d = Some (spec_list layers prefix key count d).
Proof. exact mg_list_spec. Qed.
Print Assumptions C07_list_spec_partial.

Theorem C07_db_list_spec_partial : forall (m : store) prefix key count d,
  wf_store m -> wf_bytes prefix -> prefix_ok prefix = true ->
  db_list m prefix key count d = Some (spec_list [m] prefix key count d).
Proof. exact db_list_spec. Qed.
Print Assumptions C07_db_list_spec_partial.

(** the pages of a client that continues after the last returned key concatenate to the
    live entries under the prefix in listing order; no page is empty or longer than n *)
Theorem C07_paging_complete_partial : forall layers prefix n d,
  Forall wf_store layers -> wf_bytes prefix -> prefix_ok prefix = true ->
  forallb no_empty_key layers = true -> (1 <= n)%Z -> ~ (n = 1 /\ d = 2)%Z ->
  exists pages, mg_pages layers prefix n d = Some pages /\
                concat pages = expected layers prefix d /\ good_pages n pages.
Proof. exact mg_paging. Qed.
Print Assumptions C07_paging_complete_partial.

Theorem C07_db_paging_complete_partial : forall (m : store) prefix n d,
  wf_store m -> wf_bytes prefix -> prefix_ok prefix = true ->
  no_empty_key m = true -> (1 <= n)%Z -> ~ (n = 1 /\ d = 2)%Z ->
  exists pages, db_pages m prefix n d = Some pages /\
                concat pages = expected [m] prefix d /\ good_pages n pages.
Proof. exact db_paging. Qed.
Print Assumptions C07_db_paging_complete_partial.

(** what is delivered: exactly the keys whose first layer holds a non-empty value and that
    carry the prefix, each once *)
Theorem C07_expected_char : forall layers prefix d k v,
  In (k, v) (expected layers prefix d) <->
  lookup layers k = Some v /\ v <> [] /\ is_prefix prefix k = true.
Proof. exact expected_char. Qed.
Print Assumptions C07_expected_char.

Theorem C07_expected_nodup : forall layers prefix d, NoDup (map fst (expected layers prefix d)).
Proof. exact expected_nodup. Qed.
Print Assumptions C07_expected_nodup.

Theorem C07_prefix_count_partial : forall layers prefix,
  Forall wf_store layers -> wf_bytes prefix -> prefix_ok prefix = true ->
  mg_prefix_count layers prefix = Some (spec_count layers prefix).
Proof. exact mg_prefix_count_spec. Qed.
Print Assumptions C07_prefix_count_partial.

Theorem C07_db_prefix_count_partial : forall (m : store) prefix,
  wf_store m -> wf_bytes prefix -> prefix_ok prefix = true ->
  db_prefix_count m prefix = Some (spec_count [m] prefix).
Proof. exact db_prefix_count_spec1. Qed.
Print Assumptions C07_db_prefix_count_partial.

(** without the prefix guard the statement fails (prefix whose bound is types.EmptyValue) *)
Theorem C07_paging_complete_refuted : ~ paging_complete_full.
Proof. exact paging_full_refuted. Qed.
Print Assumptions C07_paging_complete_refuted.

(** without the empty-key guard the statement fails (the client never finishes) *)
Theorem C07_paging_emptykey_refuted : ~ paging_complete_noguard2.
Proof. exact paging_emptykey_refuted. Qed.
Print Assumptions C07_paging_emptykey_refuted.
