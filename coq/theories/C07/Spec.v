(** C07 — what the property text demands, as executable definitions over the
    plain key/value view of the layered databases. *)
From Coq Require Import List NArith ZArith Bool.
From C33 Require Import Lib.Harness Lib.Bytes Lib.OMap C07.Model.
Import ListNotations.

(** entries that are not marked deleted *)
Definition live (l : list entry) : list entry := filter (fun e => negb (isdeleted (snd e))) l.

(** entries whose key has the prefix *)
Definition under (p : bytes) (m : store) : store := filter (fun e => is_prefix p (fst e)) m.

(** [overlay2 a b]: the entries of [a] laid over [b] ([a] shadows [b]) *)
Definition overlay2 (a b : store) : store := fold_right (fun e acc => put (fst e) (snd e) acc) b a.

(** the single map a list of layers stands for: earlier layers shadow later ones *)
Definition overlay (layers : list store) : store := fold_right overlay2 [] layers.

(** point lookup through the layers: the first layer that has the key decides *)
Fixpoint lookup (layers : list store) (k : bytes) : option bytes :=
  match layers with
  | [] => None
  | m :: tl => match get k m with Some v => Some v | None => lookup tl k end
  end.

(** the live entries under a prefix, in key order *)
Definition view (layers : list store) (prefix : bytes) : list entry :=
  live (under prefix (overlay layers)).

Definition in_order (d : Z) (l : list entry) : list entry := if is_asc d then l else rev l.

(** what paging must deliver in total *)
Definition expected (layers : list store) (prefix : bytes) (d : Z) : list entry :=
  in_order d (view layers prefix).

(** count <= 0 means "no limit" *)
Definition take (count : Z) (l : list entry) : list entry :=
  if (count <=? 0)%Z then l else firstn (Z.to_nat count) l.

(** entries strictly after [key] in the listing order *)
Definition strictly_after (d : Z) (key : bytes) (l : list entry) : list entry :=
  filter (fun e => before (negb (is_asc d)) key (fst e)) l.

(** one List call over the live view [vw] (key order): the first [count]
    expected entries strictly after [key] (from the start when [key] is empty);
    the special "seek" request returns the greatest live entry at or below
    [key] as [key; value]. *)
Definition spec_raw (vw : list entry) (key : bytes) (count d : Z) : lres :=
  match key with
  | [] => LEntries (take count (in_order d vw))
  | _ :: _ =>
      if ((count =? 1) && (d =? 2))%Z then
        LSeek (hd_error (filter (fun e => bleb (fst e) key) (rev vw)))
      else LEntries (take count (strictly_after d key (in_order d vw)))
  end.

Definition spec_list_v (vw : list entry) (key : bytes) (count d : Z) : list bytes :=
  encode_res d (spec_raw vw key count d).

Definition spec_list (layers : list store) (prefix key : bytes) (count d : Z) : list bytes :=
  spec_list_v (view layers prefix) key count d.

Definition spec_count (layers : list store) (prefix : bytes) : Z :=
  Z.of_nat (length (view layers prefix)).

(** well-formedness of inputs *)
Definition wf_store (m : store) : Prop := sorted m /\ Forall (fun e => wf_bytes (fst e)) m.
Definition wf_storeb (m : store) : bool := sortedb m && forallb (fun e => wf_bytesb (fst e)) m.

(** guard 1: the prefix's upper bound is not types.EmptyValue *)
Definition prefix_ok (p : bytes) : bool :=
  match succ_prefix p with Some e => negb (beqb e empty_value) | None => true end.

(** guard 2 (paging only): no layer holds the empty key (a continuation
    request with an empty key is a request "from the start") *)
Definition no_empty_key (m : store) : bool :=
  forallb (fun e => match fst e with [] => false | _ => true end) m.
