(** C07 — selectKey picks the first layer whose current key is minimal. *)
From Coq Require Import List NArith ZArith Bool Lia.
From C33 Require Import Lib.Harness Lib.Bytes Lib.OMap C07.Model C07.Spec C07.ProofsBase.
Import ListNotations.

Definition is_sel (rvm : bool) (l : list (option bytes)) (i : nat) (c : bytes) : Prop :=
  nth_error l i = Some (Some c) /\
  (forall j k, nth_error l j = Some (Some k) -> (j < i)%nat -> before rvm c k = true) /\
  (forall j k, nth_error l j = Some (Some k) -> (i < j)%nat -> before rvm k c = false).

Lemma nth_error_snoc {A} (pre : list A) x j y :
  nth_error (pre ++ [x]) j = Some y ->
  ((j < length pre)%nat /\ nth_error pre j = Some y) \/ (j = length pre /\ y = x).
Proof.
  intro H. destruct (Nat.lt_ge_cases j (length pre)) as [L|G].
  - left. split; [exact L|]. rewrite nth_error_app1 in H by exact L. exact H.
  - right. rewrite nth_error_app2 in H by exact G.
    destruct (j - length pre)%nat as [|q] eqn:E.
    + simpl in H. inversion H. split; [lia | reflexivity].
    + simpl in H. destruct q; discriminate.
Qed.

Lemma all_none_nth (l : list (option bytes)) j k :
  Forall (eq None) l -> nth_error l j = Some (Some k) -> False.
Proof.
  intros F H. apply nth_error_In in H. rewrite Forall_forall in F. specialize (F _ H). discriminate.
Qed.

Lemma mcompare_lt_b rvm a b :
  (match mcompare rvm a b with Lt => true | _ => false end) = before rvm a b.
Proof.
  destruct (mcompare rvm a b) eqn:E.
  - symmetry. apply mcompare_eq in E. subst. apply before_irrefl.
  - symmetry. apply mcompare_lt. exact E.
  - destruct (before rvm a b) eqn:B; [|reflexivity]. apply mcompare_lt in B. congruence.
Qed.

Lemma all_none_some (pre tl : list (option bytes)) t :
  Forall (eq None) ((pre ++ [Some t]) ++ tl) -> False.
Proof.
  intro F. rewrite Forall_forall in F.
  assert (I : In (Some t) ((pre ++ [Some t]) ++ tl)).
  { apply in_or_app. left. apply in_or_app. right. left. reflexivity. }
  specialize (F _ I). discriminate.
Qed.

Lemma select_go_spec rvm : forall keys pre acc i0 r i,
  (acc = None /\ Forall (eq None) pre) \/ (exists a, acc = Some a /\ is_sel rvm pre i0 a) ->
  select_go rvm keys (length pre) acc i0 = (r, i) ->
  (r = None /\ i = i0 /\ Forall (eq None) (pre ++ keys)) \/
  (exists c, r = Some c /\ is_sel rvm (pre ++ keys) i c).
Proof.
  induction keys as [|[t|] tl IH]; intros pre acc i0 r i Hacc Hsel.
  - simpl in Hsel. inversion Hsel; subst. rewrite app_nil_r.
    destruct Hacc as [[-> F]|(a & -> & S)]; [left; auto | right; eauto].
  - (* Some t *)
    cbn [select_go] in Hsel.
    replace (S (length pre)) with (length (pre ++ [Some t])) in Hsel
      by (rewrite app_length; simpl; lia).
    replace (pre ++ Some t :: tl) with ((pre ++ [Some t]) ++ tl) by (rewrite <- app_assoc; reflexivity).
    destruct Hacc as [[-> F]|(a & -> & (S1 & S2 & S3))].
    + apply (IH _ _ _ _ _) in Hsel;
        [destruct Hsel as [(_ & _ & F')|R]; [exfalso; eapply all_none_some; eauto | right; exact R]|].
      right. exists t. split; [reflexivity|]. repeat split.
      * rewrite nth_error_app2 by lia. rewrite Nat.sub_diag. reflexivity.
      * intros j k Hj Lj. rewrite nth_error_app1 in Hj by exact Lj.
        exfalso. eapply all_none_nth; eauto.
      * intros j k Hj Lj. apply nth_error_snoc in Hj as [[L _]|[E _]]; lia.
    + rewrite mcompare_lt_b in Hsel.
      assert (Li0 : (i0 < length pre)%nat) by (apply nth_error_Some; congruence).
      destruct (before rvm t a) eqn:B.
      * apply (IH _ _ _ _ _) in Hsel;
          [destruct Hsel as [(_ & _ & F')|R]; [exfalso; eapply all_none_some; eauto | right; exact R]|].
        right. exists t. split; [reflexivity|]. repeat split.
        -- rewrite nth_error_app2 by lia. rewrite Nat.sub_diag. reflexivity.
        -- intros j k Hj Lj. rewrite nth_error_app1 in Hj by exact Lj.
           destruct (Nat.lt_trichotomy j i0) as [L|[E|G]].
           ++ eapply before_trans; [exact B | eapply S2; eauto].
           ++ subst j. rewrite S1 in Hj. inversion Hj; subst. exact B.
           ++ eapply before_nlt_trans; [exact B | eapply S3; eauto].
        -- intros j k Hj Lj. apply nth_error_snoc in Hj as [[L _]|[E _]]; lia.
      * apply (IH _ _ _ _ _) in Hsel; [exact Hsel|].
        right. exists a. split; [reflexivity|]. repeat split.
        -- rewrite nth_error_app1 by exact Li0. exact S1.
        -- intros j k Hj Lj. rewrite nth_error_app1 in Hj by lia. eapply S2; eauto.
        -- intros j k Hj Lj. apply nth_error_snoc in Hj as [[L Hj]|[E Hk]].
           ++ eapply S3; eauto.
           ++ inversion Hk; subst. exact B.
  - (* None *)
    cbn [select_go] in Hsel.
    replace (S (length pre)) with (length (pre ++ [@None bytes])) in Hsel
      by (rewrite app_length; simpl; lia).
    replace (pre ++ None :: tl) with ((pre ++ [None]) ++ tl) by (rewrite <- app_assoc; reflexivity).
    apply (IH _ _ _ _ _) in Hsel; [exact Hsel|].
    destruct Hacc as [[-> F]|(a & -> & (S1 & S2 & S3))].
    + left. split; [reflexivity|]. apply Forall_app. split; [exact F | constructor; [reflexivity | constructor]].
    + assert (Li0 : (i0 < length pre)%nat) by (apply nth_error_Some; congruence).
      right. exists a. split; [reflexivity|]. repeat split.
      * rewrite nth_error_app1 by exact Li0. exact S1.
      * intros j k Hj Lj. rewrite nth_error_app1 in Hj by lia. eapply S2; eauto.
      * intros j k Hj Lj. apply nth_error_snoc in Hj as [[L Hj]|[E Hk]]; [eapply S3; eauto | discriminate].
Qed.

(** from a fresh accumulator *)
Lemma select_go_top rvm keys i0 r i :
  select_go rvm keys 0 None i0 = (r, i) ->
  (r = None /\ i = i0 /\ Forall (eq None) keys) \/ (exists c, r = Some c /\ is_sel rvm keys i c).
Proof.
  intro H. apply (select_go_spec rvm keys [] None i0 r i) in H; [exact H|].
  left. split; [reflexivity | constructor].
Qed.
