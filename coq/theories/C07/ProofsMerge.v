(** C07 — the merged iterator over several layers simulates one iterator
    over the overlay of the layers. *)
From Coq Require Import List NArith ZArith Bool Lia Sorted.
From C33 Require Import Lib.Harness Lib.Bytes Lib.OMap C07.Model C07.Spec
  C07.ProofsBase C07.ProofsSelect C07.ProofsSim.
Import ListNotations.

Lemma nth_error_map_inv {A B} (f : A -> B) l n y :
  nth_error (map f l) n = Some y -> exists x, nth_error l n = Some x /\ y = f x.
Proof.
  revert n; induction l as [|a l IH]; intros [|n] H; simpl in *; try discriminate.
  - inversion H. eauto.
  - apply IH. exact H.
Qed.

Lemma hd_filter_In {A} (f : A -> bool) l h r : filter f l = h :: r -> In h l /\ f h = true.
Proof. intro E. apply filter_In. rewrite E. left. reflexivity. Qed.

Lemma Forall2_len {A B} (P : A -> B -> Prop) la lb : Forall2 P la lb -> length la = length lb.
Proof. induction 1; simpl; congruence. Qed.

Section Merge.
Variable rv : bool.
Variable As : list (list entry).
Variable OV : list entry.
Hypothesis HAs : forall A, In A As -> dsorted rv A.
Hypothesis HOV : dsorted rv OV.
Hypothesis Hlf : forall k v, In (k, v) OV <-> lf As k v.

Definition rvm : bool := if (2 <=? length As)%nat then rv else true.
Definition lay (g : bytes -> bool) (A : list entry) : dbit := mk_dbit A rv (PRem (filter_keys g A)).
Definition its_of (g : bytes -> bool) : list dbit := map (lay g) As.
Definition upc (g : bytes -> bool) : Prop :=
  forall a b, g a = true -> before rv a b = true -> g b = true.

Lemma rvm_eq : (2 <= length As)%nat -> rvm = rv.
Proof. intro H. unfold rvm. apply Nat.leb_le in H. rewrite H. reflexivity. Qed.

Lemma two_indices {A} (l : list A) x y a b :
  nth_error l x = Some a -> nth_error l y = Some b -> x <> y -> (2 <= length l)%nat.
Proof.
  intros Hx Hy Hne.
  assert (x < length l)%nat by (apply nth_error_Some; congruence).
  assert (y < length l)%nat by (apply nth_error_Some; congruence). lia.
Qed.

Lemma cur_key_lay g A : cur_key (lay g A) = option_map fst (hd_error (filter_keys g A)).
Proof. unfold cur_key, lay, db_cur. simpl. destruct (filter_keys g A); reflexivity. Qed.

Lemma keys_nth g x k : nth_error (map cur_key (its_of g)) x = Some (Some k) ->
  exists A h r, nth_error As x = Some A /\ filter_keys g A = h :: r /\ fst h = k.
Proof.
  intro H. apply nth_error_map_inv in H as (it & H1 & H2).
  unfold its_of in H1. apply nth_error_map_inv in H1 as (A & H1 & ->).
  rewrite cur_key_lay in H2. destruct (filter_keys g A) as [|h r] eqn:E; simpl in H2; [discriminate|].
  inversion H2. exists A, h, r. auto.
Qed.

Lemma nth_keys g x A h r : nth_error As x = Some A -> filter_keys g A = h :: r ->
  nth_error (map cur_key (its_of g)) x = Some (Some (fst h)).
Proof.
  intros H1 H2. unfold its_of. rewrite map_map. erewrite map_nth_error by exact H1.
  rewrite cur_key_lay, H2. reflexivity.
Qed.

Section Sel.
Variable g : bytes -> bool.
Variable i : nat.
Variable c : bytes.
Hypothesis Hup : upc g.
Hypothesis Hsel : is_sel rvm (map cur_key (its_of g)) i c.

Lemma rvm_other x k : nth_error (map cur_key (its_of g)) x = Some (Some k) -> x <> i -> rvm = rv.
Proof.
  intros HK Hne. destruct Hsel as (S1 & _ & _). apply rvm_eq.
  pose proof (two_indices _ _ _ _ _ HK S1 Hne) as T.
  unfold its_of in T. rewrite !map_length in T. exact T.
Qed.

Lemma sel_at : exists A h r, nth_error As i = Some A /\ filter_keys g A = h :: r /\ fst h = c.
Proof. destruct Hsel as (S1 & _ & _). apply keys_nth. exact S1. Qed.

Lemma sel_min x A h r : nth_error As x = Some A -> filter_keys g A = h :: r -> before rv (fst h) c = false.
Proof.
  intros H1 H2. pose proof (nth_keys g x A h r H1 H2) as HK.
  destruct Hsel as (S1 & S2 & S3).
  destruct (Nat.lt_trichotomy x i) as [L|[E|G]].
  - rewrite <- (rvm_other x _ HK ltac:(lia)).
    apply before_asym. eapply S2; eauto.
  - subst x. rewrite S1 in HK. inversion HK. apply before_irrefl.
  - rewrite <- (rvm_other x _ HK ltac:(lia)). eapply S3; eauto.
Qed.

Lemma sel_strict x A h r : (x < i)%nat -> nth_error As x = Some A -> filter_keys g A = h :: r ->
  before rv c (fst h) = true.
Proof.
  intros L H1 H2. pose proof (nth_keys g x A h r H1 H2) as HK.
  destruct Hsel as (S1 & S2 & S3).
  rewrite <- (rvm_other x _ HK ltac:(lia)). eapply S2; eauto.
Qed.

Lemma sel_g : g c = true.
Proof.
  destruct sel_at as (A & h & r & H1 & H2 & H3). apply hd_filter_In in H2 as [_ H2].
  rewrite <- H3. exact H2.
Qed.

Lemma reselect_pt A e : In A As -> In e A -> g (fst e) = nbk rv c (fst e).
Proof.
  intros HA He. destruct (g (fst e)) eqn:G.
  - symmetry. apply In_nth_error in HA as (x & Hx).
    assert (I : In e (filter_keys g A)) by (apply filter_In; auto).
    destruct (filter_keys g A) as [|h r] eqn:EF; [destruct I|].
    pose proof (sel_min x A h r Hx EF) as Hm.
    assert (Hs : dsorted rv (h :: r)) by (rewrite <- EF; apply dsorted_filter, HAs; eapply nth_error_In; eauto).
    apply dsorted_inv in Hs as [_ Hr]. rewrite Forall_forall in Hr.
    unfold nbk. apply negb_true_iff. destruct I as [<-|I]; [exact Hm|].
    destruct (before rv (fst e) c) eqn:B; [|reflexivity].
    pose proof (before_trans _ _ _ _ (Hr e I) B) as T. unfold ltk, entry, bytes in *. congruence.
  - destruct (nbk rv c (fst e)) eqn:N; [|reflexivity].
    destruct (nbk_cases _ _ _ N) as [E|Af].
    + rewrite E, sel_g in G. discriminate.
    + rewrite (Hup c (fst e) sel_g Af) in G. discriminate.
Qed.

Lemma reselect_layers : its_of g = its_of (nbk rv c).
Proof.
  unfold its_of. apply map_ext_in. intros A HA. unfold lay. do 2 f_equal.
  unfold filter_keys. apply filter_ext_in. intros e He. apply (reselect_pt A e HA He).
Qed.

Lemma reselect_ov : filter_keys g OV = filter_keys (nbk rv c) OV.
Proof.
  unfold filter_keys. apply filter_ext_in. intros [k v] He.
  apply Hlf, lf_In in He as (A & HA & He). apply (reselect_pt A (k, v) HA He).
Qed.
End Sel.

Lemma none_ov g : Forall (eq None) (map cur_key (its_of g)) -> filter_keys g OV = [].
Proof.
  intro F. unfold filter_keys. apply filter_all_false. intros [k v] He. simpl.
  destruct (g k) eqn:G; [|reflexivity]. exfalso.
  apply Hlf, lf_In in He as (A & HA & He).
  assert (I : In (k, v) (filter_keys g A)) by (apply filter_In; auto).
  destruct (filter_keys g A) as [|h r] eqn:EF; [destruct I|].
  apply In_nth_error in HA as (x & Hx).
  pose proof (nth_keys g x A h r Hx EF) as HK. eapply all_none_nth; eauto.
Qed.

(** * the canonical state positioned on key [c] *)
Definition canon (c : bytes) (M : miter) : Prop :=
  mi_rev M = rvm /\ mi_its M = its_of (nbk rv c) /\ mi_keys M = map cur_key (mi_its M) /\
  mi_prev M = c /\ mi_valid M = true /\ is_sel rvm (mi_keys M) (mi_index M) c.

Lemma upc_nbk c : upc (nbk rv c).
Proof. intros a b. apply nbk_up. Qed.
Lemma upc_afk c : upc (afk rv c).
Proof. intros a b. apply afk_up. Qed.

Lemma start_select g M : upc g -> mi_rev M = rvm -> mi_dir M = DSOI ->
  mi_its M = its_of g -> mi_keys M = map cur_key (its_of g) ->
  (snd (select_key M) = false /\ mi_dir (fst (select_key M)) = DEOI /\ filter_keys g OV = []) \/
  (snd (select_key M) = true /\ mi_dir (fst (select_key M)) = DForward /\
   exists c, (forall d, d = DForward \/ d = DSeek -> canon c (set_dir (fst (select_key M)) d)) /\
             filter_keys g OV = filter_keys (nbk rv c) OV).
Proof.
  intros Hup Hrev Hdir Hits Hkeys. destruct M as [its rvM keys prev idx dir]. simpl in *. subst.
  unfold select_key. cbn [mi_rev mi_keys mi_index].
  destruct (select_go rvm (map cur_key (its_of g)) 0 None idx) as [r i] eqn:ES.
  apply select_go_top in ES as [(-> & -> & F)|(c & -> & S)].
  - left. simpl. repeat split. apply none_ov. exact F.
  - right. simpl. repeat split. exists c. split.
    + intros d Hd. unfold canon. simpl.
      rewrite <- (reselect_layers g i c Hup S).
      refine (conj eq_refl (conj eq_refl (conj eq_refl (conj eq_refl (conj _ S))))).
      destruct Hd as [->| ->]; reflexivity.
    + apply (reselect_ov g i c Hup S).
Qed.

(** * the states inside Next's loop *)
Definition mixed (c : bytes) (A : list entry) (it : dbit) : Prop :=
  it = lay (nbk rv c) A \/ it = lay (afk rv c) A.

Definition inv (c : bytes) (M : miter) : Prop :=
  mi_rev M = rvm /\ Forall2 (mixed c) As (mi_its M) /\ mi_keys M = map cur_key (mi_its M) /\
  mi_prev M = c /\ mi_valid M = true /\ is_sel rvm (mi_keys M) (mi_index M) c.

Lemma canon_inv c M : canon c M -> inv c M.
Proof.
  intros (H1 & H2 & H3 & H4 & H5 & H6).
  refine (conj H1 (conj _ (conj H3 (conj H4 (conj H5 H6))))).
  rewrite H2. unfold its_of. eapply Forall2_impl; [|apply Forall2_map_r].
  intros A it _ _ ->. left. reflexivity.
Qed.

Lemma afk_no_head c A : cur_key (lay (afk rv c) A) <> Some c.
Proof.
  rewrite cur_key_lay. destruct (filter_keys (afk rv c) A) as [|h r] eqn:E; simpl; [discriminate|].
  intro H. inversion H as [H']. apply hd_filter_In in E as [_ E]. rewrite H', afk_irrefl in E. discriminate.
Qed.

Lemma mixed_head_nbk c A it k : mixed c A it -> cur_key it = Some k -> nbk rv c k = true.
Proof.
  intros [->| ->] H; rewrite cur_key_lay in H.
  - destruct (filter_keys (nbk rv c) A) as [|h r] eqn:E; simpl in H; [discriminate|].
    inversion H; subst. apply hd_filter_In in E as [_ E]. exact E.
  - destruct (filter_keys (afk rv c) A) as [|h r] eqn:E; simpl in H; [discriminate|].
    inversion H; subst. apply hd_filter_In in E as [_ E]. apply afk_nbk. exact E.
Qed.

Lemma nbk_afk_same c A : dsorted rv A -> cur_key (lay (nbk rv c) A) <> Some c ->
  filter_keys (nbk rv c) A = filter_keys (afk rv c) A.
Proof.
  intros Hs H. rewrite cur_key_lay in H.
  destruct (filter_keys (nbk rv c) A) as [|h r] eqn:E.
  - symmetry. replace (filter_keys (afk rv c) A) with (filter_keys (afk rv c) (filter_keys (nbk rv c) A)).
    + rewrite E. reflexivity.
    + apply filter_filter_sub. intros x _. apply afk_nbk.
  - destruct (filter_nbk_head rv c A h r Hs E) as [_ H2]. symmetry. apply H2.
    intro Eq. apply H. simpl. rewrite Eq. reflexivity.
Qed.

Lemma mixed_to_afk c : forall Bs its, (forall A, In A Bs -> dsorted rv A) ->
  Forall2 (mixed c) Bs its -> (forall it, In it its -> cur_key it <> Some c) ->
  its = map (lay (afk rv c)) Bs.
Proof.
  intros Bs its HB F. induction F as [|A it Bs its HM F IH]; intro Hn; simpl; [reflexivity|].
  f_equal.
  - destruct HM as [->| ->]; [|reflexivity].
    unfold lay. rewrite (nbk_afk_same c A); [reflexivity | apply HB; left; reflexivity |].
    apply Hn. left. reflexivity.
  - apply IH; [intros A' HA'; apply HB; right; exact HA' | intros it' Hit'; apply Hn; right; exact Hit'].
Qed.

(** the current entry of a canonical state is the overlay's entry for [c] *)
Lemma canon_head c M : canon c M ->
  exists v, mi_cur M = Some (c, v) /\
            filter_keys (nbk rv c) OV = (c, v) :: filter_keys (afk rv c) OV.
Proof.
  intros (H1 & H2 & H3 & H4 & H5 & H6).
  rewrite H2 in H3. rewrite H3 in H6.
  destruct (sel_at _ _ _ H6) as (A & h & r & Hn & Hf & Hh).
  exists (snd h). split.
  - unfold mi_cur, mi_key. rewrite H5. destruct H6 as (S1 & _ & _).
    rewrite H3. rewrite (nth_error_nth _ _ _ S1).
    rewrite H2. unfold its_of. erewrite map_nth_error by exact Hn.
    unfold lay, db_cur. simpl. rewrite Hf. reflexivity.
  - apply filter_nbk_in; [exact HOV|]. apply Hlf.
    apply (lf_intro As (mi_index M) A c (snd h) Hn).
    + apply hd_filter_In in Hf as [Hf _]. rewrite <- Hh. destruct h; exact Hf.
    + intros x A' Lx Hx Hin. apply in_map_iff in Hin as ([k w] & Ek & Hin). simpl in Ek. subst k.
      assert (I : In (c, w) (filter_keys (nbk rv c) A')).
      { apply filter_In. split; [exact Hin | apply nbk_refl]. }
      destruct (filter_keys (nbk rv c) A') as [|h' r'] eqn:EF; [destruct I|].
      pose proof (sel_strict _ _ _ H6 x A' h' r' Lx Hx EF) as St.
      assert (Hs : dsorted rv (h' :: r')).
      { rewrite <- EF. apply dsorted_filter, HAs. eapply nth_error_In; eauto. }
      apply dsorted_inv in Hs as [_ Hr]. rewrite Forall_forall in Hr.
      destruct I as [E|I].
      * subst h'. simpl in St. rewrite before_irrefl in St. discriminate.
      * specialize (Hr _ I). unfold ltk in Hr. simpl in Hr.
        pose proof (before_asym _ _ _ St) as T. unfold entry, bytes in *. congruence.
Qed.

(** * one pass of Next's loop *)
Lemma inv_index_lt c M : inv c M -> (mi_index M < length (mi_its M))%nat.
Proof.
  intros (_ & _ & H3 & _ & _ & (S1 & _)).
  assert (H : (mi_index M < length (mi_keys M))%nat) by (apply nth_error_Some; congruence).
  rewrite H3, map_length in H. exact H.
Qed.

Lemma valid_not_soi M : mi_valid M = true -> is_soi (mi_dir M) = false.
Proof. unfold mi_valid. destruct (mi_dir M); simpl; congruence. Qed.

Lemma next_inner_unfold M : mi_valid M = true ->
  mi_next_inner M =
  match nth_error (mi_its M) (mi_index M) with
  | None => (M, false)
  | Some it =>
      select_key (set_its M (upd_nth (mi_its M) (mi_index M) (db_next it))
                          (upd_nth (mi_keys M) (mi_index M) (cur_key (db_next it))))
  end.
Proof. unfold mi_valid, mi_next_inner. destruct (mi_dir M); simpl; congruence. Qed.

Definition step_ok (c : bytes) (M M1 : miter) (ok : bool) : Prop :=
  (ok = false /\ mi_valid M1 = false /\ filter_keys (afk rv c) OV = []) \/
  (ok = true /\ exists c', mi_key M1 = Some c' /\ mi_rev M1 = rvm /\ mi_prev M1 = c /\
     ((c' = c /\ inv c M1 /\ (mi_index M < mi_index M1)%nat) \/
      (c' <> c /\ canon c' (set_prev M1 c') /\
       filter_keys (afk rv c) OV = filter_keys (nbk rv c') OV))).

Lemma next_inner_step c M : inv c M ->
  step_ok c M (fst (mi_next_inner M)) (snd (mi_next_inner M)).
Proof.
  intros (H1 & H2 & H3 & H4 & H5 & H6).
  rewrite (next_inner_unfold M H5).
  pose proof (valid_not_soi M H5) as Hsoi.
  destruct M as [its rvM keys prev idx dir]. simpl in *. subst rvM keys prev.
  pose proof H6 as (S1 & S2 & S3).
  pose proof S1 as S1'. apply nth_error_map_inv in S1' as (it & Hit & Hck).
  destruct (Forall2_nth _ _ _ _ _ H2 Hit) as (A & HA & HM).
  assert (HsA : dsorted rv A) by (apply HAs; eapply nth_error_In; eauto).
  destruct HM as [->| ->]; [|exfalso; symmetry in Hck; exact (afk_no_head c A Hck)].
  rewrite cur_key_lay in Hck.
  destruct (filter_keys (nbk rv c) A) as [|h r] eqn:EF; simpl in Hck; [discriminate|].
  assert (Hh : fst h = c) by congruence.
  destruct (filter_nbk_head rv c A h r HsA EF) as [Hr _]. specialize (Hr Hh).
  assert (Hnext : db_next (lay (nbk rv c) A) = lay (afk rv c) A).
  { unfold lay, db_next, set_pos. simpl. rewrite EF, Hr. reflexivity. }
  rewrite Hit, Hnext. clear Hnext.
  set (its2 := upd_nth its idx (lay (afk rv c) A)).
  assert (Hk2 : upd_nth (map cur_key its) idx (cur_key (lay (afk rv c) A)) = map cur_key its2)
    by (unfold its2; rewrite map_upd_nth; reflexivity).
  rewrite Hk2. clear Hk2.
  assert (F2 : Forall2 (mixed c) As its2).
  { unfold its2. eapply Forall2_upd_nth; [exact H2 | exact HA | right; reflexivity]. }
  assert (Hidx : (idx < length its)%nat) by (apply nth_error_Some; congruence).
  assert (Hk_idx : nth_error (map cur_key its2) idx = Some (cur_key (lay (afk rv c) A))).
  { erewrite map_nth_error; [reflexivity|]. unfold its2. apply nth_error_upd_same. exact Hidx. }
  assert (Hk_other : forall j, j <> idx -> nth_error (map cur_key its2) j = nth_error (map cur_key its) j).
  { intros j Hj. unfold its2. rewrite map_upd_nth. apply nth_error_upd_other. exact Hj. }
  unfold select_key, step_ok. cbn [set_its mi_rev mi_keys mi_index mi_its mi_prev mi_dir].
  destruct (select_go rvm (map cur_key its2) 0 None idx) as [r0 i'] eqn:ES.
  apply select_go_top in ES as [(-> & -> & F)|(c' & -> & S')].
  - (* every layer is exhausted *)
    left. cbn. repeat split.
    assert (E2 : its2 = its_of (afk rv c)).
    { apply mixed_to_afk; [exact HAs | exact F2|]. intros it' Hin Hc.
      apply In_nth_error in Hin as (j & Hj).
      eapply all_none_nth; [exact F|]. erewrite map_nth_error by exact Hj. rewrite Hc. reflexivity. }
    apply none_ov. rewrite <- E2. exact F.
  - right. cbn [set_its set_index set_dir set_prev mi_dir mi_its mi_rev mi_keys mi_prev mi_index fst snd].
    rewrite Hsoi. cbn [set_its set_index set_dir set_prev mi_dir mi_its mi_rev mi_keys mi_prev mi_index fst snd].
    split; [reflexivity|]. exists c'.
    pose proof S' as (T1 & T2 & T3).
    split; [unfold mi_key, mi_valid; cbn; apply nth_error_nth; exact T1|].
    split; [reflexivity|]. split; [reflexivity|].
    destruct (bytes_eq_dec c' c) as [Ec|Nc].
    + left. subst c'. split; [reflexivity|]. split.
      * refine (conj eq_refl (conj F2 (conj eq_refl (conj eq_refl (conj eq_refl S'))))).
      * cbn. destruct (Nat.lt_trichotomy i' idx) as [L|[E|G]]; [exfalso|exfalso|exact G].
        -- rewrite Hk_other in T1 by lia. specialize (S2 _ _ T1 L).
           rewrite before_irrefl in S2. discriminate.
        -- subst i'. rewrite Hk_idx in T1. inversion T1 as [T1']. exact (afk_no_head c A T1').
    + right. split; [exact Nc|].
      (* the selected key is at or after c *)
      assert (Hc' : nbk rv c c' = true).
      { pose proof T1 as T1'. apply nth_error_map_inv in T1' as (it' & Hit' & Hck').
        destruct (Forall2_nth _ _ _ _ _ F2 Hit') as (A' & _ & HM').
        eapply mixed_head_nbk; [exact HM' | symmetry; exact Hck']. }
      assert (E2 : its2 = its_of (afk rv c)).
      { apply mixed_to_afk; [exact HAs | exact F2|]. intros it' Hin Hc.
        apply In_nth_error in Hin as (j & Hj).
        assert (Tj : nth_error (map cur_key its2) j = Some (Some c))
          by (erewrite map_nth_error by exact Hj; rewrite Hc; reflexivity).
        destruct (Nat.lt_trichotomy j i') as [L|[E|G]].
        - assert (Rv : rvm = rv).
          { apply rvm_eq. pose proof (two_indices _ _ _ _ _ Tj T1 ltac:(lia)) as T.
            rewrite map_length in T. unfold its2 in T. rewrite upd_nth_length in T.
            rewrite <- (Forall2_len _ _ _ H2) in T. exact T. }
          specialize (T2 _ _ Tj L). rewrite Rv in T2.
          unfold nbk in Hc'. rewrite T2 in Hc'. discriminate.
        - subst j. rewrite T1 in Tj. congruence.
        - assert (Rv : rvm = rv).
          { apply rvm_eq. pose proof (two_indices _ _ _ _ _ Tj T1 ltac:(lia)) as T.
            rewrite map_length in T. unfold its2 in T. rewrite upd_nth_length in T.
            rewrite <- (Forall2_len _ _ _ H2) in T. exact T. }
          specialize (T3 _ _ Tj G). rewrite Rv in T3.
          apply Nc. symmetry. apply (before_total rv); [exact T3|].
          unfold nbk in Hc'. apply negb_true_iff in Hc'. exact Hc'. }
      rewrite E2 in S'. rewrite E2.
      split.
      * unfold canon. cbn.
        rewrite <- (reselect_layers (afk rv c) i' c' (upc_afk c) S').
        refine (conj eq_refl (conj eq_refl (conj eq_refl (conj eq_refl (conj eq_refl S'))))).
      * apply (reselect_ov (afk rv c) i' c' (upc_afk c) S').
Qed.

(** * Next *)
Lemma inv_len c M : inv c M -> length (mi_its M) = length As.
Proof. intros (_ & H2 & _). symmetry. eapply Forall2_len; eauto. Qed.

Lemma next_go_spec c : forall fuel M, inv c M -> (length (mi_its M) < fuel + mi_index M)%nat ->
  (mi_valid (fst (mi_next_go fuel M)) = false /\ filter_keys (afk rv c) OV = []) \/
  (exists c', canon c' (fst (mi_next_go fuel M)) /\
              filter_keys (afk rv c) OV = filter_keys (nbk rv c') OV).
Proof.
  induction fuel as [|f IH]; intros M HI Hlen.
  - pose proof (inv_index_lt c M HI). lia.
  - cbn [mi_next_go].
    assert (Hv : mi_valid M = true) by (destruct HI as (_ & _ & _ & _ & Hv & _); exact Hv).
    rewrite (valid_not_soi M Hv).
    pose proof (next_inner_step c M HI) as St. destruct (mi_next_inner M) as [M1 ok].
    cbn [fst snd] in St.
    destruct St as [(-> & Hv1 & He)|(-> & c' & Hk & Hr & Hp & Hcase)]; cbn [negb].
    + left. split; assumption.
    + rewrite Hk, Hr, Hp. destruct Hcase as [(-> & HI1 & Hlt)|(Nc & HC & He)].
      * replace (mcompare rvm c c) with Eq by (symmetry; apply mcompare_eq; reflexivity).
        apply IH; [exact HI1|]. rewrite (inv_len c M1 HI1). rewrite (inv_len c M HI) in Hlen. lia.
      * destruct (mcompare rvm c' c) eqn:E; [apply mcompare_eq in E; contradiction| |];
          right; exists c'; cbn [fst]; split; assumption.
Qed.

(** * the simulation relation *)
Definition Rm (M : miter) (S : dbit) : Prop :=
  (exists c, canon c M /\ S = mk_dbit OV rv (PRem (filter_keys (nbk rv c) OV))) \/
  (mi_valid M = false /\ S = mk_dbit OV rv (PRem [])).

Lemma Rm_cur M S : Rm M S -> mi_cur M = db_cur S.
Proof.
  intros [(c & HC & ->)|(Hv & ->)].
  - destruct (canon_head c M HC) as (v & H1 & H2). rewrite H1. unfold db_cur. simpl. rewrite H2. reflexivity.
  - unfold mi_cur, mi_key. rewrite Hv. reflexivity.
Qed.

Lemma Rm_next M S : Rm M S -> mi_cur M <> None -> Rm (mg_next M) (db_next S).
Proof.
  intros [(c & HC & ->)|(Hv & ->)] Hcur.
  - destruct (canon_head c M HC) as (v & _ & H2).
    assert (HS : db_next (mk_dbit OV rv (PRem (filter_keys (nbk rv c) OV)))
                 = mk_dbit OV rv (PRem (filter_keys (afk rv c) OV))).
    { unfold db_next, set_pos. simpl. rewrite H2. reflexivity. }
    rewrite HS. unfold mg_next, mi_next.
    destruct (next_go_spec c (S (length (mi_its M))) M (canon_inv c M HC) ltac:(lia)) as [(Hv & He)|(c' & HC' & He)].
    + right. split; [exact Hv | rewrite He; reflexivity].
    + left. exists c'. split; [exact HC' | rewrite He; reflexivity].
  - exfalso. apply Hcur. unfold mi_cur, mi_key. rewrite Hv. reflexivity.
Qed.

(** * Rewind and Seek from the freshly opened iterators *)
Definition its0 : list dbit := map (fun A => mk_dbit A rv PFresh) As.
Definition M0 : miter := mi_new its0 rv.
Definition S0 : dbit := mk_dbit OV rv PFresh.

Lemma M0_rev : mi_rev M0 = rvm.
Proof. unfold M0, mi_new, rvm, its0. simpl. rewrite map_length. reflexivity. Qed.

Lemma its0_rewind : map db_rewind its0 = its_of (fun _ => true).
Proof.
  unfold its0, its_of. rewrite map_map. apply map_ext. intro A.
  unfold db_rewind, set_pos, lay. simpl. do 2 f_equal.
  symmetry. apply filter_all_true. reflexivity.
Qed.

Lemma its0_seek k : map (fun it => db_seek it k) its0 = its_of (nbk rv k).
Proof.
  unfold its0, its_of. rewrite map_map. apply map_ext_in. intros A HA.
  unfold db_seek, set_pos, lay. simpl. rewrite drop_before_filter by (apply HAs; exact HA). reflexivity.
Qed.

Lemma set_dir_same M d : mi_dir M = d -> set_dir M d = M.
Proof. destruct M. simpl. intros ->. reflexivity. Qed.

Lemma Rm_rewind : Rm (mg_rewind M0) (db_rewind S0).
Proof.
  unfold mg_rewind, mi_rewind. change (mi_its M0) with its0. rewrite its0_rewind.
  set (M := set_dir (set_its M0 (its_of (fun _ => true)) (map cur_key (its_of (fun _ => true)))) DSOI).
  destruct (start_select (fun _ => true) M) as [(_ & Hd & He)|(_ & Hd & c & HC & He)];
    try reflexivity; [intros a b _ _; reflexivity | exact M0_rev | |].
  - right. split; [unfold mi_valid; rewrite Hd; reflexivity|].
    unfold db_rewind, S0, set_pos. simpl. f_equal. f_equal.
    unfold filter_keys in He. rewrite filter_all_true in He by reflexivity. exact He.
  - left. exists c. split.
    + specialize (HC DForward (or_introl eq_refl)). rewrite (set_dir_same _ _ Hd) in HC. exact HC.
    + unfold db_rewind, S0, set_pos. simpl. f_equal. f_equal. rewrite <- He.
      unfold filter_keys. symmetry. apply filter_all_true. reflexivity.
Qed.

Lemma Rm_seek k : Rm (mg_seek M0 k) (db_seek S0 k).
Proof.
  unfold mg_seek, mi_seek. change (mi_its M0) with its0. rewrite its0_seek.
  set (M := set_dir (set_its M0 (its_of (nbk rv k)) (map cur_key (its_of (nbk rv k)))) DSOI).
  assert (HS : db_seek S0 k = mk_dbit OV rv (PRem (filter_keys (nbk rv k) OV))).
  { unfold db_seek, S0, set_pos. simpl. rewrite drop_before_filter by exact HOV. reflexivity. }
  rewrite HS.
  destruct (start_select (nbk rv k) M) as [(Hok & Hd & He)|(Hok & Hd & c & HC & He)];
    try reflexivity; [apply upc_nbk | exact M0_rev | |];
    destruct (select_key M) as [m1 ok]; cbn [fst snd] in *; subst ok; cbn [fst].
  - right. split; [reflexivity | rewrite He; reflexivity].
  - left. exists c. split; [apply HC; right; reflexivity | rewrite He; reflexivity].
Qed.
End Merge.
