(** C07 — ListHelper gives the same answers over two iterator implementations
    related by a simulation; list utilities for the merged iterator. *)
From Coq Require Import List NArith ZArith Bool Lia Sorted.
From C33 Require Import Lib.Harness Lib.Bytes Lib.OMap C07.Model C07.Spec C07.ProofsBase.
Import ListNotations.

Section Sim.
Variables I1 I2 : Type.
Variable open1 : bytes -> bool -> I1.
Variable rw1 : I1 -> I1.
Variable sk1 : I1 -> bytes -> I1.
Variable nx1 : I1 -> I1.
Variable cu1 : I1 -> option entry.
Variable open2 : bytes -> bool -> I2.
Variable rw2 : I2 -> I2.
Variable sk2 : I2 -> bytes -> I2.
Variable nx2 : I2 -> I2.
Variable cu2 : I2 -> option entry.
Variable R : bytes -> bool -> I1 -> I2 -> Prop.
Hypothesis R_cur : forall p rv a b, R p rv a b -> cu1 a = cu2 b.
Hypothesis R_next : forall p rv a b, R p rv a b -> cu1 a <> None -> R p rv (nx1 a) (nx2 b).
Hypothesis R_rewind : forall p rv, R p rv (rw1 (open1 p rv)) (rw2 (open2 p rv)).
Hypothesis R_seek : forall p rv k, R p rv (sk1 (open1 p rv) k) (sk2 (open2 p rv) k).

Lemma scan_loop_sim p rv : forall fuel a b i count, R p rv a b ->
  scan_loop I1 nx1 cu1 fuel a i count = scan_loop I2 nx2 cu2 fuel b i count.
Proof.
  induction fuel as [|f IH]; intros a b i count HR; simpl; [reflexivity|].
  rewrite <- (R_cur _ _ _ _ HR). destruct (cu1 a) as [e|] eqn:E; [|reflexivity].
  assert (HN : R p rv (nx1 a) (nx2 b)) by (apply R_next; [exact HR | congruence]).
  destruct (isdeleted (snd e)); [apply IH; exact HN|].
  destruct (i + 1 =? count)%Z; [reflexivity|]. rewrite (IH _ _ _ _ HN). reflexivity.
Qed.

Lemma skip_deleted_sim p rv : forall fuel a b, R p rv a b ->
  skip_deleted I1 nx1 cu1 fuel a = skip_deleted I2 nx2 cu2 fuel b.
Proof.
  induction fuel as [|f IH]; intros a b HR; simpl; [reflexivity|].
  rewrite <- (R_cur _ _ _ _ HR). destruct (cu1 a) as [e|] eqn:E; [|reflexivity].
  destruct (isdeleted (snd e)); [|reflexivity].
  apply IH. apply R_next; [exact HR | congruence].
Qed.

Lemma count_loop_sim p rv : forall fuel a b, R p rv a b ->
  count_loop I1 nx1 cu1 fuel a = count_loop I2 nx2 cu2 fuel b.
Proof.
  induction fuel as [|f IH]; intros a b HR; simpl; [reflexivity|].
  rewrite <- (R_cur _ _ _ _ HR). destruct (cu1 a) as [e|] eqn:E; [|reflexivity].
  assert (HN : R p rv (nx1 a) (nx2 b)) by (apply R_next; [exact HR | congruence]).
  rewrite (IH _ _ HN). reflexivity.
Qed.

Theorem list_raw_sim fuel prefix key count d :
  list_raw I1 open1 rw1 sk1 nx1 cu1 fuel prefix key count d
  = list_raw I2 open2 rw2 sk2 nx2 cu2 fuel prefix key count d.
Proof.
  unfold list_raw. destruct key as [|b k].
  - unfold scan_from_end. erewrite scan_loop_sim; [reflexivity | apply R_rewind].
  - destruct ((count =? 1)%Z && (d =? 2)%Z).
    + unfold next_key_value. erewrite skip_deleted_sim; [reflexivity | apply R_seek].
    + unfold iterator_scan.
      pose proof (R_seek prefix (negb (is_asc d)) (b :: k)) as HS.
      rewrite <- (R_cur _ _ _ _ HS).
      destruct (cu1 (sk1 (open1 prefix (negb (is_asc d))) (b :: k))) as [e|] eqn:E; [|reflexivity].
      destruct (beqb (fst e) (b :: k)).
      * erewrite scan_loop_sim; [reflexivity|]. apply R_next; [exact HS | congruence].
      * erewrite scan_loop_sim; [reflexivity | exact HS].
Qed.

Theorem prefix_count_sim fuel prefix :
  prefix_count I1 open1 rw1 nx1 cu1 fuel prefix = prefix_count I2 open2 rw2 nx2 cu2 fuel prefix.
Proof. unfold prefix_count. erewrite count_loop_sim; [reflexivity | apply R_rewind]. Qed.
End Sim.

(** * list utilities *)
Lemma upd_nth_length {A} (l : list A) n a : length (upd_nth l n a) = length l.
Proof. revert n; induction l as [|x l IH]; intros [|n]; simpl; auto. Qed.

Lemma nth_error_upd_same {A} (l : list A) n a : (n < length l)%nat -> nth_error (upd_nth l n a) n = Some a.
Proof. revert n; induction l as [|x l IH]; intros [|n] H; simpl in *; try lia; [reflexivity | apply IH; lia]. Qed.

Lemma nth_error_upd_other {A} (l : list A) n j a : j <> n -> nth_error (upd_nth l n a) j = nth_error l j.
Proof.
  revert n j; induction l as [|x l IH]; intros [|n] [|j] H; simpl; try reflexivity; try congruence.
  apply IH. congruence.
Qed.

Lemma map_upd_nth {A B} (f : A -> B) l n a : map f (upd_nth l n a) = upd_nth (map f l) n (f a).
Proof. revert n; induction l as [|x l IH]; intros [|n]; simpl; try reflexivity. rewrite IH. reflexivity. Qed.

Lemma Forall2_upd_nth {A B} (P : A -> B -> Prop) la lb n a b :
  Forall2 P la lb -> nth_error la n = Some a -> P a b -> Forall2 P la (upd_nth lb n b).
Proof.
  intro F. revert n. induction F as [|x y la lb Hxy F IH]; intros [|n] Hn Hp; simpl in *; try discriminate.
  - inversion Hn; subst. constructor; assumption.
  - constructor; [assumption | apply IH; assumption].
Qed.

Lemma Forall2_nth {A B} (P : A -> B -> Prop) la lb n b :
  Forall2 P la lb -> nth_error lb n = Some b -> exists a, nth_error la n = Some a /\ P a b.
Proof.
  intro F. revert n. induction F as [|x y la lb Hxy F IH]; intros [|n] Hn; simpl in *; try discriminate.
  - inversion Hn; subst. eauto.
  - apply IH. exact Hn.
Qed.

Lemma Forall2_nth_l {A B} (P : A -> B -> Prop) la lb n a :
  Forall2 P la lb -> nth_error la n = Some a -> exists b, nth_error lb n = Some b /\ P a b.
Proof.
  intro F. revert n. induction F as [|x y la lb Hxy F IH]; intros [|n] Hn; simpl in *; try discriminate.
  - inversion Hn; subst. eauto.
  - apply IH. exact Hn.
Qed.

Lemma Forall2_map_eq {A B} (f : A -> B) la lb : Forall2 (fun a b => b = f a) la lb -> lb = map f la.
Proof. induction 1; simpl; congruence. Qed.

Lemma Forall2_map_r {A B} (f : A -> B) la : Forall2 (fun a b => b = f a) la (map f la).
Proof. induction la; simpl; constructor; auto. Qed.

Lemma Forall2_impl {A B} (P Q : A -> B -> Prop) la lb :
  (forall a b, In a la -> In b lb -> P a b -> Q a b) -> Forall2 P la lb -> Forall2 Q la lb.
Proof.
  intros H F. induction F as [|x y la lb Hxy F IH]; constructor.
  - apply H; [left; reflexivity | left; reflexivity | exact Hxy].
  - apply IH. intros a b Ha Hb. apply H; right; assumption.
Qed.

(** * first layer that has the key *)
Fixpoint lf (As : list (list entry)) (k v : bytes) : Prop :=
  match As with
  | [] => False
  | A :: tl => In (k, v) A \/ (~ In k (map fst A) /\ lf tl k v)
  end.

Lemma lf_In As k v : lf As k v -> exists A, In A As /\ In (k, v) A.
Proof.
  induction As as [|A tl IH]; simpl; [tauto|].
  intros [H|[_ H]]; [exists A; auto|]. destruct (IH H) as (A' & H1 & H2). exists A'. auto.
Qed.

Lemma lf_intro : forall As i A k v,
  nth_error As i = Some A -> In (k, v) A ->
  (forall x A', (x < i)%nat -> nth_error As x = Some A' -> ~ In k (map fst A')) ->
  lf As k v.
Proof.
  induction As as [|A0 tl IH]; intros [|i] A k v Hn Hin Hbefore; simpl in *; try discriminate.
  - inversion Hn; subst. left. exact Hin.
  - right. split.
    + apply (Hbefore 0%nat A0); [lia | reflexivity].
    + apply (IH i A k v Hn Hin). intros x A' Hx Hnx. apply (Hbefore (S x) A'); [lia | exact Hnx].
Qed.

Lemma keys_in_dec (k : bytes) (A : list entry) : {In k (map fst A)} + {~ In k (map fst A)}.
Proof. apply in_dec. apply bytes_eq_dec. Qed.

Lemma lf_exists As k : (exists A v, In A As /\ In (k, v) A) -> exists v, lf As k v.
Proof.
  induction As as [|A0 tl IH]; intros (A & v & HA & Hin); [destruct HA|].
  destruct (keys_in_dec k A0) as [I|NI].
  - apply in_map_iff in I as ([k' v'] & E & I). simpl in E. subst k'. exists v'. left. exact I.
  - destruct HA as [->|HA].
    + exfalso. apply NI. apply in_map_iff. exists (k, v). auto.
    + destruct IH as (v' & Hv'); [exists A, v; auto|]. exists v'. right. auto.
Qed.

(** in a sorted list an entry's key splits the list *)
Lemma filter_nbk_in rv l c v : dsorted rv l -> In (c, v) l ->
  filter_keys (nbk rv c) l = (c, v) :: filter_keys (afk rv c) l.
Proof.
  intros Hs Hin. apply in_split in Hin as (P & S & ->).
  assert (HA : filter_keys (afk rv c) (P ++ (c, v) :: S) = S) by exact (filter_afk_split rv P (c, v) S Hs).
  rewrite HA.
  apply dsorted_app_inv in Hs as (_ & Hxs & Hp).
  apply dsorted_inv in Hxs as [_ Hs2]. rewrite Forall_forall in Hs2.
  unfold filter_keys. rewrite filter_app. simpl. rewrite nbk_refl.
  rewrite filter_all_false, filter_all_true; [reflexivity | |].
  - intros y Hy. apply afk_nbk. apply (Hs2 y Hy).
  - intros y Hy. unfold nbk. specialize (Hp y (c, v) Hy (or_introl eq_refl)).
    unfold ltk in Hp. simpl in Hp. apply negb_false_iff. exact Hp.
Qed.
