(** C07 — assembling the theorems. *)
From Coq Require Import String.
From Coq Require Import List NArith ZArith Bool Lia Sorted.
From C33 Require Import Lib.Harness Lib.Bytes Lib.OMap C07.Model C07.Spec
  C07.ProofsBase C07.ProofsSingle C07.ProofsPaging C07.ProofsSelect C07.ProofsSim C07.ProofsMerge.
Import ListNotations.

(** * the overlay map *)
Lemma overlay2_sorted a b : sorted b -> sorted (overlay2 a b).
Proof. intro H. induction a as [|e a IH]; simpl; [exact H | apply put_sorted; exact IH]. Qed.

Lemma overlay_sorted ls : sorted (overlay ls).
Proof. induction ls as [|a ls IH]; simpl; [exact I | apply overlay2_sorted; exact IH]. Qed.

Lemma get_overlay2 k a b :
  get k (overlay2 a b) = match get k a with Some v => Some v | None => get k b end.
Proof.
  induction a as [|[k' v'] a IH]; simpl; [reflexivity|].
  rewrite get_put. destruct (beqb k k'); [reflexivity | exact IH].
Qed.

Lemma get_overlay k ls : get k (overlay ls) = lookup ls k.
Proof.
  induction ls as [|a ls IH]; simpl; [reflexivity|]. rewrite get_overlay2, IH. reflexivity.
Qed.

Lemma overlay_In ls k v : In (k, v) (overlay ls) <-> lookup ls k = Some v.
Proof. rewrite <- get_overlay. symmetry. apply get_In. apply overlay_sorted. Qed.

Lemma overlay_single (m : store) : sorted m -> overlay [m] = m.
Proof.
  intro H. apply sorted_ext; [apply overlay_sorted | exact H|]. intro k.
  rewrite get_overlay. simpl. destruct (get k m); reflexivity.
Qed.

Definition total_len (ls : list store) : nat := fold_right (fun m a => length m + a)%nat 0%nat ls.

Lemma put_length_le (k : bytes) (v : bytes) (m : store) : (length (put k v m) <= S (length m))%nat.
Proof.
  induction m as [|[k' v'] m IH]; simpl; [lia|]. destruct (bcmp k k'); simpl; unfold store, entry, bytes in *; lia.
Qed.

Lemma overlay2_length a b : (length (overlay2 a b) <= length a + length b)%nat.
Proof.
  induction a as [|e a IH]; simpl; [lia|].
  eapply Nat.le_trans; [apply put_length_le|]. unfold overlay2, store, entry, bytes in *. lia.
Qed.

Lemma overlay_length ls : (length (overlay ls) <= total_len ls)%nat.
Proof.
  induction ls as [|a ls IH]; simpl; [lia|].
  eapply Nat.le_trans; [apply overlay2_length|]. unfold store, entry, bytes in *. lia.
Qed.

Lemma lookup_In ls k v : lookup ls k = Some v -> exists m, In m ls /\ In (k, v) m.
Proof.
  induction ls as [|m ls IH]; simpl; [discriminate|].
  destruct (get k m) as [v'|] eqn:E.
  - intro H. inversion H; subst. exists m. split; [left; reflexivity | apply get_Some_In; exact E].
  - intro H. destruct (IH H) as (m' & H1 & H2). exists m'. auto.
Qed.

Lemma overlay_keys_wf ls : Forall wf_store ls -> Forall (fun e => wf_bytes (fst e)) (overlay ls).
Proof.
  intro W. rewrite Forall_forall. intros [k v] Hin. apply overlay_In, lookup_In in Hin as (m & Hm & Hin).
  rewrite Forall_forall in W. destruct (W m Hm) as [_ Wk]. rewrite Forall_forall in Wk.
  exact (Wk _ Hin).
Qed.

Lemma overlay_no_empty ls : forallb no_empty_key ls = true -> forall e, In e (overlay ls) -> fst e <> [].
Proof.
  intros H [k v] Hin. apply overlay_In, lookup_In in Hin as (m & Hm & Hin).
  rewrite forallb_forall in H. specialize (H m Hm). unfold no_empty_key in H.
  rewrite forallb_forall in H. specialize (H _ Hin). simpl in *. destruct k; [discriminate | discriminate].
Qed.

Lemma wf_sorted ls : Forall wf_store ls -> Forall sorted ls.
Proof. apply Forall_impl. intros m [H _]. exact H. Qed.

(** * the layers' ranges and the overlay's range *)
Definition inr (p k : bytes) : bool := in_range (Some p) (resolve_end p) k.

Lemma range_of_In p (m : store) k v : In (k, v) (range_of p m) <-> In (k, v) m /\ inr p k = true.
Proof. unfold range_of. rewrite range_filter_In. reflexivity. Qed.

Lemma dir_list_In rv (L : list entry) e : In e (dir_list rv L) <-> In e L.
Proof. destruct rv; simpl; [symmetry; apply in_rev | reflexivity]. Qed.

Definition ranged (rv : bool) (p : bytes) (ls : list store) : list (list entry) :=
  map (fun m => dir_list rv (range_of p m)) ls.

Lemma lf_layers rv p : forall ls, Forall sorted ls -> forall k v,
  lf (ranged rv p ls) k v <-> (lookup ls k = Some v /\ inr p k = true).
Proof.
  induction ls as [|m ls IH]; intros Hs k v; simpl.
  - split; [tauto | intros [H _]; discriminate].
  - inversion Hs as [|? ? Hm Hls]; subst. specialize (IH Hls k v).
    rewrite dir_list_In, range_of_In.
    destruct (get k m) as [v'|] eqn:E.
    + apply (get_In k v' m Hm) in E. split.
      * intros [[Hin Hr]|[Hn Hl]].
        -- split; [|exact Hr]. f_equal. apply (get_In k v m Hm) in Hin.
           apply (get_In k v' m Hm) in E. congruence.
        -- exfalso. apply IH in Hl as [_ Hr]. apply Hn. apply in_map_iff. exists (k, v').
           split; [reflexivity|]. apply dir_list_In, range_of_In. auto.
      * intros [Hv Hr]. inversion Hv; subst. left. auto.
    + split.
      * intros [[Hin _]|[_ Hl]]; [|apply IH; exact Hl].
        apply (get_In k v m Hm) in Hin. congruence.
      * intro H. right. split; [|apply IH; exact H].
        intro Hin. apply in_map_iff in Hin as ([k' w] & Ek & Hin). simpl in Ek. subst k'.
        apply dir_list_In, range_of_In in Hin as [Hin _]. apply (get_In k w m Hm) in Hin. congruence.
Qed.

Section Layers.
Variable layers : list store.
Hypothesis Hsorted : Forall sorted layers.

Let OVm := overlay layers.

Lemma As_sorted rv p A : In A (ranged rv p layers) -> dsorted rv A.
Proof.
  intro H. apply in_map_iff in H as (m & <- & Hm). apply dsorted_dir_list.
  apply range_filter_sorted. rewrite Forall_forall in Hsorted. apply Hsorted. exact Hm.
Qed.

Lemma OV_sorted rv p : dsorted rv (dir_list rv (range_of p OVm)).
Proof. apply dsorted_dir_list, range_filter_sorted, overlay_sorted. Qed.

Lemma OV_lf rv p k v : In (k, v) (dir_list rv (range_of p OVm)) <-> lf (ranged rv p layers) k v.
Proof.
  rewrite dir_list_In, range_of_In, (lf_layers rv p layers Hsorted). unfold OVm.
  rewrite overlay_In. reflexivity.
Qed.

Definition Rl (p : bytes) (rv : bool) : miter -> dbit -> Prop :=
  Rm rv (ranged rv p layers) (dir_list rv (range_of p OVm)).

Lemma mi_open_M0 p rv : mi_open layers p rv = M0 rv (ranged rv p layers).
Proof.
  unfold mi_open, M0, its0, ranged. rewrite map_map. reflexivity.
Qed.

Lemma db_open_S0 p rv : db_open OVm p rv = S0 rv (dir_list rv (range_of p OVm)).
Proof. reflexivity. Qed.

(** iterating the merge of the layers = iterating the single map [overlay layers] *)
Theorem merged_raw_eq fuel prefix key count d :
  list_raw miter (mi_open layers) mg_rewind mg_seek mg_next mi_cur fuel prefix key count d
  = list_raw dbit (db_open OVm) db_rewind db_seek db_next db_cur fuel prefix key count d.
Proof.
  apply (list_raw_sim miter dbit (mi_open layers) mg_rewind mg_seek mg_next mi_cur
                      (db_open OVm) db_rewind db_seek db_next db_cur Rl).
  - intros p rv a b H. eapply Rm_cur; first [exact H | apply As_sorted | apply OV_sorted | apply OV_lf].
  - intros p rv a b H Hc. eapply Rm_next; first [exact H | exact Hc | apply As_sorted | apply OV_sorted | apply OV_lf].
  - intros p rv. rewrite mi_open_M0, db_open_S0.
    apply Rm_rewind; first [apply As_sorted | apply OV_sorted | apply OV_lf].
  - intros p rv k. rewrite mi_open_M0, db_open_S0.
    apply Rm_seek; first [apply As_sorted | apply OV_sorted | apply OV_lf].
Qed.

Theorem merged_count_eq fuel prefix :
  prefix_count miter (mi_open layers) mg_rewind mg_next mi_cur fuel prefix
  = prefix_count dbit (db_open OVm) db_rewind db_next db_cur fuel prefix.
Proof.
  apply prefix_count_sim with (R := Rl).
  - intros p rv a b H. eapply Rm_cur; first [exact H | apply As_sorted | apply OV_sorted | apply OV_lf].
  - intros p rv a b H Hc. eapply Rm_next; first [exact H | exact Hc | apply As_sorted | apply OV_sorted | apply OV_lf].
  - intros p rv. rewrite mi_open_M0, db_open_S0.
    apply Rm_rewind; first [apply As_sorted | apply OV_sorted | apply OV_lf].
Qed.
End Layers.

(** * final statements *)
Lemma fuel_of_total layers : fuel_of layers = S (S (total_len layers)).
Proof. reflexivity. Qed.

Lemma fuel_ok layers : (S (length (overlay layers)) < fuel_of layers)%nat.
Proof. rewrite fuel_of_total. pose proof (overlay_length layers). lia. Qed.

Lemma mg_raw_spec layers prefix key count d :
  Forall wf_store layers -> wf_bytes prefix -> prefix_ok prefix = true ->
  list_raw miter (mi_open layers) mg_rewind mg_seek mg_next mi_cur (fuel_of layers) prefix key count d
  = Some (spec_raw (view layers prefix) key count d).
Proof.
  intros W Wp Hp. rewrite (merged_raw_eq layers (wf_sorted _ W)).
  rewrite db_list_raw_spec by (apply overlay_sorted || apply fuel_ok).
  rewrite (range_of_under prefix (overlay layers) Wp Hp (overlay_keys_wf _ W)). reflexivity.
Qed.

Theorem mg_list_spec layers prefix key count d :
  Forall wf_store layers -> wf_bytes prefix -> prefix_ok prefix = true ->
  mg_list layers prefix key count d = Some (spec_list layers prefix key count d).
Proof. intros W Wp Hp. unfold mg_list. rewrite mg_raw_spec by assumption. reflexivity. Qed.

Theorem mg_prefix_count_spec layers prefix :
  Forall wf_store layers -> wf_bytes prefix -> prefix_ok prefix = true ->
  mg_prefix_count layers prefix = Some (spec_count layers prefix).
Proof.
  intros W Wp Hp. unfold mg_prefix_count. rewrite (merged_count_eq layers (wf_sorted _ W)).
  rewrite db_prefix_count_spec by (apply overlay_sorted || apply fuel_ok).
  rewrite (range_of_under prefix (overlay layers) Wp Hp (overlay_keys_wf _ W)). reflexivity.
Qed.

Theorem mg_eq_db layers prefix key count d :
  Forall wf_store layers ->
  mg_list layers prefix key count d = db_list (overlay layers) prefix key count d
  /\ mg_prefix_count layers prefix = db_prefix_count (overlay layers) prefix.
Proof.
  intro W. pose proof (fuel_ok layers) as F.
  assert (F1 : (S (length (overlay layers)) < fuel_of [overlay layers])%nat)
    by (rewrite fuel_of_total; unfold total_len; cbn [fold_right]; lia).
  split.
  - unfold mg_list, db_list. rewrite (merged_raw_eq layers (wf_sorted _ W)).
    rewrite !db_list_raw_spec by (apply overlay_sorted || assumption). reflexivity.
  - unfold mg_prefix_count, db_prefix_count. rewrite (merged_count_eq layers (wf_sorted _ W)).
    rewrite !db_prefix_count_spec by (apply overlay_sorted || assumption). reflexivity.
Qed.

(** the ordered view *)
Lemma view_sorted layers prefix : sorted (view layers prefix).
Proof. unfold view, live, under. apply sorted_filter, sorted_filter, overlay_sorted. Qed.

Lemma in_order_dir d l : in_order d l = dir_list (negb (is_asc d)) l.
Proof. unfold in_order, dir_list. destruct (is_asc d); reflexivity. Qed.

Lemma expected_sorted layers prefix d : dsorted (negb (is_asc d)) (expected layers prefix d).
Proof. unfold expected. rewrite in_order_dir. apply dsorted_dir_list, view_sorted. Qed.

Lemma view_In layers prefix k v :
  In (k, v) (view layers prefix) <->
  lookup layers k = Some v /\ v <> [] /\ is_prefix prefix k = true.
Proof.
  unfold view, live, under. rewrite !filter_In, overlay_In. simpl.
  destruct v; simpl; intuition congruence.
Qed.

Theorem expected_char layers prefix d k v :
  In (k, v) (expected layers prefix d) <->
  lookup layers k = Some v /\ v <> [] /\ is_prefix prefix k = true.
Proof. unfold expected. rewrite in_order_dir, dir_list_In. apply view_In. Qed.

Lemma dsorted_NoDup_keys rv l : dsorted rv l -> NoDup (map fst l).
Proof.
  induction l as [|e l IH]; intro H; simpl; [constructor|].
  apply dsorted_inv in H as [H1 H2]. constructor; [|apply IH; exact H1].
  intro Hin. apply in_map_iff in Hin as (e' & E & Hin). rewrite Forall_forall in H2.
  specialize (H2 _ Hin). unfold ltk in H2. rewrite E, before_irrefl in H2. discriminate.
Qed.

Theorem expected_nodup layers prefix d : NoDup (map fst (expected layers prefix d)).
Proof. eapply dsorted_NoDup_keys, expected_sorted. Qed.

(** paging from any implementation that meets the single-request specification *)
Lemma paging_from_spec (lf : bytes -> option lres) vw n d pf :
  (forall key, lf key = Some (spec_raw vw key n d)) ->
  sorted vw -> (forall e, In e vw -> fst e <> []) ->
  (1 <= n)%Z -> ~ (n = 1 /\ d = 2)%Z -> (length vw < pf)%nat ->
  exists pages, pages_fn pf lf [] = Some pages /\ concat pages = in_order d vw /\ good_pages n pages.
Proof.
  intros Hlf Hs Hne Hn Hg Hlen.
  set (rv := negb (is_asc d)). set (O := in_order d vw).
  assert (HO : dsorted rv O) by (unfold O, rv; rewrite in_order_dir; apply dsorted_dir_list, Hs).
  assert (HneO : forall e, In e O -> fst e <> []).
  { intros e He. apply Hne. unfold O in He. rewrite in_order_dir in He. apply dir_list_In in He. exact He. }
  assert (HlenO : (length O < pf)%nat).
  { unfold O. rewrite in_order_dir, dir_list_length. exact Hlen. }
  destruct (paging_suffix rv O n HO HneO Hn pf O [] [] eq_refl (or_introl (conj eq_refl eq_refl)) HlenO)
    as (pages & H1 & H2 & H3).
  exists pages. split; [|split; assumption].
  rewrite <- H1. apply pages_fn_ext. intro k. rewrite Hlf, (spec_raw_page vw k n d Hg). reflexivity.
Qed.

Lemma view_no_empty layers prefix :
  forallb no_empty_key layers = true -> forall e, In e (view layers prefix) -> fst e <> [].
Proof.
  intros H e He. apply (overlay_no_empty layers H). unfold view, live, under in He.
  apply filter_In in He as [He _]. apply filter_In in He as [He _]. exact He.
Qed.

Lemma view_length layers prefix : (length (view layers prefix) <= total_len layers)%nat.
Proof.
  unfold view, live, under. eapply Nat.le_trans; [apply length_filter_le|].
  eapply Nat.le_trans; [apply length_filter_le | apply overlay_length].
Qed.

Theorem mg_paging layers prefix n d :
  Forall wf_store layers -> wf_bytes prefix -> prefix_ok prefix = true ->
  forallb no_empty_key layers = true -> (1 <= n)%Z -> ~ (n = 1 /\ d = 2)%Z ->
  exists pages, mg_pages layers prefix n d = Some pages /\
                concat pages = expected layers prefix d /\ good_pages n pages.
Proof.
  intros W Wp Hp Hne Hn Hg. unfold mg_pages. rewrite pages_go_fn.
  apply paging_from_spec; try assumption.
  - intro key. apply mg_raw_spec; assumption.
  - apply view_sorted.
  - apply view_no_empty. exact Hne.
  - rewrite fuel_of_total. pose proof (view_length layers prefix). lia.
Qed.

(** * ListHelper directly on one database *)
Lemma fuel_single (m : store) : (S (length m) < fuel_of [m])%nat.
Proof. rewrite fuel_of_total. unfold total_len. cbn [fold_right]. lia. Qed.

Lemma db_raw_spec (m : store) prefix key count d :
  wf_store m -> wf_bytes prefix -> prefix_ok prefix = true ->
  list_raw dbit (db_open m) db_rewind db_seek db_next db_cur (fuel_of [m]) prefix key count d
  = Some (spec_raw (view [m] prefix) key count d).
Proof.
  intros [Hs Wk] Wp Hp. rewrite db_list_raw_spec by (assumption || apply fuel_single).
  rewrite (range_of_under prefix m Wp Hp Wk). unfold view. rewrite (overlay_single m Hs). reflexivity.
Qed.

Theorem db_list_spec (m : store) prefix key count d :
  wf_store m -> wf_bytes prefix -> prefix_ok prefix = true ->
  db_list m prefix key count d = Some (spec_list [m] prefix key count d).
Proof. intros W Wp Hp. unfold db_list. rewrite db_raw_spec by assumption. reflexivity. Qed.

Theorem db_prefix_count_spec1 (m : store) prefix :
  wf_store m -> wf_bytes prefix -> prefix_ok prefix = true ->
  db_prefix_count m prefix = Some (spec_count [m] prefix).
Proof.
  intros [Hs Wk] Wp Hp. unfold db_prefix_count. rewrite db_prefix_count_spec by (assumption || apply fuel_single).
  rewrite (range_of_under prefix m Wp Hp Wk). unfold spec_count, view. rewrite (overlay_single m Hs). reflexivity.
Qed.

Theorem db_paging (m : store) prefix n d :
  wf_store m -> wf_bytes prefix -> prefix_ok prefix = true ->
  no_empty_key m = true -> (1 <= n)%Z -> ~ (n = 1 /\ d = 2)%Z ->
  exists pages, db_pages m prefix n d = Some pages /\
                concat pages = expected [m] prefix d /\ good_pages n pages.
Proof.
  intros W Wp Hp Hne Hn Hg. unfold db_pages. rewrite pages_go_fn.
  apply paging_from_spec; try assumption.
  - intro key. apply db_raw_spec; assumption.
  - apply view_sorted.
  - apply view_no_empty. simpl. rewrite Hne. reflexivity.
  - pose proof (view_length [m] prefix) as VL. pose proof (fuel_single m) as FS.
    unfold total_len in VL. cbn [fold_right] in VL. lia.
Qed.

(** * the guards are needed *)
Lemma wf_storeb_ok m : wf_storeb m = true -> wf_store m.
Proof.
  unfold wf_storeb, wf_store. intro H. apply andb_true_iff in H as [H1 H2].
  split; [apply sortedb_iff; exact H1|].
  rewrite forallb_forall in H2. rewrite Forall_forall. intros e He. apply wf_bytesb_iff. apply H2. exact He.
Qed.

Definition paging_complete_full : Prop :=
  forall layers prefix n d,
    Forall wf_store layers -> wf_bytes prefix -> (1 <= n)%Z -> ~ (n = 1 /\ d = 2)%Z ->
    exists pages, mg_pages layers prefix n d = Some pages /\
                  concat pages = expected layers prefix d /\ good_pages n pages.

(** the prefix whose upper bound is types.EmptyValue: the listing runs on into "z" *)
Definition ev_prefix : bytes := bs "FFFFFFFFemptyBVBiCj5jvE15pEiwro8TQRGnJSNsJE"%string.
Definition ev_layers : list store := [[(ev_prefix ++ bs "x"%string, bs "v1"%string); (bs "z"%string, bs "v2"%string)]].

Theorem paging_full_refuted : ~ paging_complete_full.
Proof.
  intro H. destruct (H ev_layers ev_prefix 5%Z 1%Z) as (pages & H1 & H2 & _).
  - constructor; [|constructor]. apply wf_storeb_ok. vm_compute. reflexivity.
  - apply wf_bytesb_iff. vm_compute. reflexivity.
  - lia.
  - lia.
  - vm_compute in H1. inversion H1; subst. vm_compute in H2. discriminate.
Qed.

(** with a regular prefix but the empty key stored: the client never finishes *)
Definition paging_complete_noguard2 : Prop :=
  forall layers prefix n d,
    Forall wf_store layers -> wf_bytes prefix -> prefix_ok prefix = true ->
    (1 <= n)%Z -> ~ (n = 1 /\ d = 2)%Z ->
    exists pages, mg_pages layers prefix n d = Some pages /\
                  concat pages = expected layers prefix d /\ good_pages n pages.

Theorem paging_emptykey_refuted : ~ paging_complete_noguard2.
Proof.
  intro H. destruct (H [[([], bs "v"%string)]; [(bs "a"%string, bs "w"%string)]] [] 2%Z 0%Z) as (pages & H1 & _).
  - constructor; [|constructor; [|constructor]]; apply wf_storeb_ok; vm_compute; reflexivity.
  - constructor.
  - reflexivity.
  - lia.
  - lia.
  - vm_compute in H1. discriminate.
Qed.

(** * the hypotheses are satisfiable by non-trivial states *)
Definition ex_layers : list store :=
  [ [(bs "a1"%string, bs "x"%string); (bs "a3"%string, [])];
    [(bs "a2"%string, bs "y"%string); (bs "a3"%string, bs "old"%string); (bs "b"%string, bs "z"%string)];
    [(bs "a1"%string, bs "base"%string); (bs "a4"%string, bs "w"%string)] ].

Example ex_guards :
  forallb wf_storeb ex_layers = true /\ wf_bytesb (bs "a"%string) = true /\
  prefix_ok (bs "a"%string) = true /\ forallb no_empty_key ex_layers = true.
Proof. vm_compute. repeat split. Qed.

Example ex_pages :
  mg_pages ex_layers (bs "a"%string) 2 0
  = Some [ [(bs "a4"%string, bs "w"%string); (bs "a2"%string, bs "y"%string)];
           [(bs "a1"%string, bs "x"%string)] ]
  /\ mg_prefix_count ex_layers (bs "a"%string) = Some 3%Z.
Proof. vm_compute. split; reflexivity. Qed.
