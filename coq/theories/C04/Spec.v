(** C04 — the abstract specification: the set of committed roots with their
    contents, and the table of updates that are waiting.

    The specification does not know hashes.  A root is an opaque token (the
    harness numbers the distinct hashes the implementation returned; 0 = nil,
    1 = 32 zero bytes); contents are C01's sorted maps.  It is fed with the
    implementation's own replies:

    - an update (MemSet) of a parent whose content is known, answered with root t,
      makes "t waits with content = parent content + writes";
    - Commit r must be acknowledged iff r waits, and then r is committed with the
      content it waited with; Rollback r likewise, and r no longer waits;
    - a direct Set of a committed parent commits the result at once;
    - a restart forgets everything that waits and nothing that is committed;
    - EVERY read at a committed root returns exactly its content;
    - a read at any other root returns nothing, or the content THAT root denotes
      (a pending tree is read under its own hash; without the key prefix the
      hash of a stored sub-tree resolves as well) — never anything else; in the
      [strict] configuration (EnableMavlPrefix: only saved roots resolve) a read
      at a root that is neither committed nor waiting returns nothing.

    Content [None] = unknown (the update was computed from a parent the
    specification knows nothing about, e.g. a foreign hash): no obligation.

    No request whatsoever may take the store down: the reply [SCrash] (the
    process that serves the store died while the operation was in flight) is
    rejected for every operation. *)
From Coq Require Import List ZArith NArith Bool.
From C33 Require Import C01.Keys C01.Spec.
Import ListNotations.

Definition tok := N.
Definition content := option smap.

Fixpoint a_get {A} (l : list (tok * A)) (t : tok) : option A :=
  match l with
  | [] => None
  | (t', a) :: tl => if N.eqb t t' then Some a else a_get tl t
  end.

Definition a_del {A} (l : list (tok * A)) (t : tok) : list (tok * A) :=
  filter (fun b => negb (N.eqb t (fst b))) l.

Definition a_put {A} (l : list (tok * A)) (t : tok) (a : A) : list (tok * A) :=
  (t, a) :: a_del l t.

(** [denotes]: the content of every root the specification has seen computed (kept
    for ever: a hash denotes one content). *)
Record sst := mk_sst { committed : list (tok * content); waiting : list (tok * content);
                       denotes : list (tok * smap) }.

(** both spellings of the empty root are committed and empty *)
Definition sst0 : sst := mk_sst [(0%N, Some []); (1%N, Some [])] [] [(0%N, []); (1%N, [])].

(** what an update of [p] starts from: the committed content, else the waiting one *)
Definition known (s : sst) (p : tok) : content :=
  match a_get (committed s) p with
  | Some c => c
  | None => match a_get (waiting s) p with
            | Some c => c
            | None => None
            end
  end.

Definition upd (c : content) (kvs : list (bytes * bytes)) : content :=
  match c with Some m => Some (apply_writes m kvs) | None => None end.

(** keep what is known *)
Definition merge (old new : content) : content :=
  match old with Some _ => old | None => new end.

(** operations and replies as the implementation showed them *)
Inductive sop :=
| SMemSet (p : tok) (kvs : list (bytes * bytes))
| SSet (p : tok) (kvs : list (bytes * bytes))
| SCommit (r : tok)
| SRollback (r : tok)
| SGet (r : tok) (ks : list bytes)
| SRestart
| SForeign (kvs : list (bytes * bytes))   (* root of these writes on an unrelated empty store *)
| SOther.                          (* an operation the specification says nothing about *)

Inductive sout :=
| SRoot (t : tok)
| SVals (vs : list (option bytes))
| SNotFound
| SFail                            (* any other error, or a recovered panic *)
| SCrash.                          (* no reply: the process of the store died *)

(** A value of length 0 is not distinguishable from "absent" at the store API
    (Store.Get leaves the slot nil unless the key exists, and the reply travels
    as a protobuf bytes field). *)
Definition canon (v : option bytes) : option bytes :=
  match v with Some [] => None | _ => v end.

Fixpoint vals_eqb (a b : list (option bytes)) : bool :=
  match a, b with
  | [], [] => true
  | x :: a', y :: b' =>
      match canon x, canon y with
      | None, None => vals_eqb a' b'
      | Some u, Some w => (match bcmp u w with Eq => true | _ => false end) && vals_eqb a' b'
      | _, _ => false
      end
  | _, _ => false
  end.

Definition learn (d : list (tok * smap)) (t : tok) (c : content) : list (tok * smap) :=
  match c, a_get d t with
  | Some m, None => (t, m) :: d
  | _, _ => d
  end.

Definition all_none (vs : list (option bytes)) : bool :=
  forallb (fun v => match canon v with None => true | Some _ => false end) vs.

(** one step: the new specification state and whether the reply is allowed *)
Definition sstep (strict : bool) (s : sst) (o : sop) (r : sout) : sst * bool :=
  match o, r with
  | _, SCrash => (s, false)
  | SMemSet p kvs, SRoot t =>
      let c := upd (known s p) kvs in
      let old := match a_get (waiting s) t with Some c0 => c0 | None => None end in
      (mk_sst (committed s) (a_put (waiting s) t (merge c old)) (learn (denotes s) t c), true)
  | SMemSet _ _, _ => (s, true)
  | SSet p kvs, SRoot t =>
      let c := match a_get (committed s) p with Some c0 => upd c0 kvs | None => None end in
      let old := match a_get (committed s) t with Some c0 => c0 | None => None end in
      (mk_sst (a_put (committed s) t (merge old c)) (waiting s) (learn (denotes s) t c), true)
  | SSet _ _, _ => (s, true)
  | SCommit r0, SRoot t =>
      match a_get (waiting s) r0 with
      | Some c =>
          let old := match a_get (committed s) r0 with Some c0 => c0 | None => None end in
          (mk_sst (a_put (committed s) r0 (merge old c)) (a_del (waiting s) r0) (denotes s), N.eqb t r0)
      | None => (s, false)                       (* acknowledged a commit of nothing *)
      end
  | SCommit r0, SNotFound =>
      (s, match a_get (waiting s) r0 with Some _ => false | None => true end)
  | SCommit _, _ => (s, false)
  | SRollback r0, SRoot t =>
      match a_get (waiting s) r0 with
      | Some _ => (mk_sst (committed s) (a_del (waiting s) r0) (denotes s), N.eqb t r0)
      | None => (s, false)
      end
  | SRollback r0, SNotFound =>
      (s, match a_get (waiting s) r0 with Some _ => false | None => true end)
  | SRollback _, _ => (s, false)
  | SGet r0 ks, SVals vs =>
      match a_get (committed s) r0 with
      | Some (Some m) => (s, vals_eqb vs (map (sget m) ks))
      | Some None => (s, true)
      | None =>
          let waits := match a_get (waiting s) r0 with Some _ => true | None => false end in
          (s, all_none vs ||
              (negb (strict && negb waits) &&
               match a_get (denotes s) r0 with
               | Some m => vals_eqb vs (map (sget m) ks)
               | None => true
               end))
      end
  | SGet _ _, _ => (s, false)
  | SRestart, _ => (mk_sst (committed s) [] (denotes s), true)
  | SForeign kvs, SRoot t => (mk_sst (committed s) (waiting s) (learn (denotes s) t (Some (apply_writes [] kvs))), true)
  | SForeign _, _ => (s, true)
  | SOther, _ => (s, true)
  end.
