(** C04 — the hypotheses of the main theorems are satisfiable by concrete,
    non-trivial states (non-vacuity), and every reachable state has the invariant. *)
From Coq Require Import List ZArith NArith Bool Lia.
From C33 Require Import C01.Keys C01.Model C01.Spec C01.Store C01.Inv
  C04.Model C04.Proofs C04.ProofsOps C04.ProofsMain.
Import ListNotations.
Open Scope Z_scope.

Theorem reachable_inv : forall pfx ops, inv (run (st0 pfx) ops).
Proof. intros. apply run_inv_grows. apply inv_st0. Qed.

Definition ka : bytes := [97%N].
Definition kb : bytes := [98%N].
Definition kc : bytes := [99%N].
Definition v1 : bytes := [49%N].
Definition v2 : bytes := [50%N].

(** a store with one committed version {a=1, b=2}, one pending fork and one rolled back *)
Definition ex_ops : list op :=
  [OSet XNil [(ka, v1); (kb, v2)]].
Definition ex_s (pfx : bool) : st := run (st0 pfx) ex_ops.
Definition ex_tree : tree := Node kb 1 2 (Leaf ka v1) (Leaf kb v2).
Definition ex_root : xroot := XH (thash ex_tree).

Example ex_committed : forall pfx, committed (ex_s pfx) ex_root (Some ex_tree).
Proof. intros [|]; vm_compute; reflexivity. Qed.

Example ex_inv : forall pfx, inv (ex_s pfx).
Proof. intros. apply reachable_inv. Qed.

(** pending_invisible: three table-only operations on that store *)
Definition ex_table_ops : list op :=
  [OMemSet ex_root [(kc, v1)]; OMemSet ex_root [(ka, v2)]; ORollback (XH (thash (Leaf ka v1)))].

Example ex_table_only : forallb table_only ex_table_ops = true.
Proof. reflexivity. Qed.

Example ex_table_pending : s_pend (run (ex_s false) ex_table_ops) <> [].
Proof. vm_compute. discriminate. Qed.

(** commit_exact: a fork is computed, another fork is computed and rolled back, empty updates
    mark the PARENT and the FORK ITSELF (the history of the former finding 1), the fork is read,
    then it is committed *)
Definition ex_fork : out * st := mem_set (ex_s false) ex_root [(kc, v1)].
Definition ex_fork_root : xroot :=
  match fst ex_fork with RRoot r => r | _ => XNil end.
Definition ex_between : list op :=
  [OMemSet ex_root [(ka, v2)]; OMemSet ex_root []; ORollback ex_root;
   OMemSet ex_fork_root []; OGet ex_fork_root [kc]].

Example ex_fork_ok : ex_fork = (RRoot ex_fork_root, snd ex_fork).
Proof. vm_compute. reflexivity. Qed.

Example ex_guard : still_pending ex_fork_root ex_between = true.
Proof. vm_compute. reflexivity. Qed.

(** (the former guard does not hold on this history) *)
Example ex_old_guard_fails : no_marker_on ex_fork_root ex_between = false.
Proof. vm_compute. reflexivity. Qed.

Example ex_commit_acked :
  fst (step (run (snd ex_fork) ex_between) (OCommit ex_fork_root)) = RRoot ex_fork_root.
Proof. vm_compute. reflexivity. Qed.

Example ex_commit_reads :
  read (snd (step (run (snd ex_fork) ex_between) (OCommit ex_fork_root))) ex_fork_root kc = Some v1.
Proof. vm_compute. reflexivity. Qed.

(** commit_exact_general beyond commit_exact: the fork is rolled back, computed again and
    committed (no empty MemSet on it after the rollback) *)
Definition ex_again : list op :=
  [OMemSet ex_fork_root []; ORollback ex_fork_root; OMemSet ex_root [(kc, v1)]].

Example ex_general_guard :
  no_marker_after_discard ex_fork_root ex_again = true /\ still_pending ex_fork_root ex_again = false.
Proof. vm_compute. auto. Qed.

Example ex_again_acked :
  fst (step (run (snd ex_fork) ex_again) (OCommit ex_fork_root)) = RRoot ex_fork_root.
Proof. vm_compute. reflexivity. Qed.

(** forks_independent: commit the second fork, roll back the first, try to commit the first *)
Definition ex_acts : list (bool * bool) := [(false, true); (true, false); (true, true)].

Example ex_forks :
  let s1 := snd (mem_set (ex_s true) ex_root [(kc, v1)]) in
  let r1 := ex_fork_root in
  let m2 := mem_set s1 ex_root [(ka, v2); (kc, v2)] in
  match fst m2 with
  | RRoot r2 =>
      let ops := map (act_op r1 r2) ex_acts in
      In (OCommit r2, RRoot r2) (combine ops (outs (snd m2) ops)) /\
      ~ In (OCommit r1, RRoot r1) (combine ops (outs (snd m2) ops)) /\
      read (run (snd m2) ops) r2 kc = Some v2 /\ read (run (snd m2) ops) r1 kc = None
  | _ => False
  end.
Proof.
  vm_compute. split; [left; reflexivity|]. split; [|split; reflexivity].
  intros [H|[H|[H|[]]]]; discriminate.
Qed.

(** ops_linearizable_model: three clients, a schedule that interleaves them *)
Example ex_exec :
  let progs := [[OMemSet XNil [(ka, v1)]; OCommit (XH (HLeaf ka v1))];
                [OGet (XH (HLeaf ka v1)) [ka]; OGet (XH (HLeaf ka v1)) [ka]];
                [ORollback (XH (HLeaf ka v1))]] in
  let '(sf, rf, h) := exec (st0 false) progs [1; 0; 1; 2; 0; 2]%nat in
  map ev_out h = [RVals [None]; RRoot (XH (HLeaf ka v1)); RVals [Some v1];
                  RRoot (XH (HLeaf ka v1)); RErrNotFound] /\
  rf = [[]; []; []].
Proof. vm_compute. auto. Qed.
