(** C04 — every operation keeps the invariant and only lets the database grow;
    what an update (MemSet) leaves in the table, and when an acknowledged Commit
    makes it readable. *)
From Coq Require Import List ZArith NArith Bool Lia.
From C33 Require Import C01.Keys C01.KeysFacts C01.Model C01.Spec C01.Store C01.Inv
  C01.Proofs C01.ProofsStore C04.Model C04.Proofs.
Import ListNotations.
Open Scope Z_scope.

Lemma load_x_good : forall s p o, inv s -> load_x s p = Some o -> o_good o.
Proof. intros s p o I H. apply (committed_good s p o I H). Qed.

(** the tree an update computes *)
Lemma update_tree : forall s p o kvs, inv s -> load_x s p = Some o ->
  exists o', t_set_all o kvs = Some o' /\ o_good o' /\
             o_elements o' = apply_writes (o_elements o) kvs.
Proof. intros s p o kvs I H. apply t_set_all_inv. eapply load_x_good; eauto. Qed.

Lemma step_inv_grows : forall s o, inv s -> inv (snd (step s o)) /\ grows s (snd (step s o)).
Proof.
  intros s o I. pose proof I as [WF [G PO]].
  destruct o as [p kvs|p kvs|r|r|r ks|]; cbn [step].
  - (* MemSet *)
    unfold mem_set. destruct kvs as [|kv kvs].
    + simpl. split; [|apply with_pend_grows].
      split; [exact WF|]. split; [exact G|]. apply pend_ok_put_absent_none. exact PO.
    + destruct (load_x s p) as [o|] eqn:L; [|simpl; auto using grows_refl].
      destruct (update_tree s p o (kv :: kvs) I L) as [o' [E [G' _]]]. rewrite E.
      destruct o' as [t|]; [|simpl; auto using grows_refl].
      simpl. split; [|apply with_pend_grows]. destruct G' as [HO HS].
      split; [exact WF|]. split; [exact G|]. apply pend_ok_put_tree; auto.
  - (* Set *)
    unfold set_direct. destruct (load_x s p) as [o|] eqn:L; [|simpl; auto using grows_refl].
    destruct (update_tree s p o kvs I L) as [o' [E [G' _]]]. rewrite E.
    destruct o' as [t|]; [|simpl; auto using grows_refl].
    destruct G' as [HO HS]. simpl.
    split; [apply save_x_inv; auto|apply save_x_grows; auto using ordered_keyed].
  - (* Commit *)
    unfold commit. destruct (p_get (s_pend s) r) as [[t|]|] eqn:P; simpl; auto using grows_refl.
    + destruct (PO _ _ P) as [_ [HO HS]].
      split; [apply save_x_inv; auto using pend_ok_del|apply save_x_grows; auto using ordered_keyed].
    + split; [|apply with_pend_grows]. split; [exact WF|]. split; [exact G|]. apply pend_ok_del. exact PO.
  - (* Rollback *)
    unfold rollback. destruct (p_get (s_pend s) r) as [x|] eqn:P; simpl; auto using grows_refl.
    split; [|apply with_pend_grows]. split; [exact WF|]. split; [exact G|]. apply pend_ok_del. exact PO.
  - simpl. auto using grows_refl.
  - simpl. split; [|apply with_pend_grows]. split; [exact WF|]. split; [exact G|].
    intros x t H. discriminate.
Qed.

Lemma step_inv : forall s o, inv s -> inv (snd (step s o)).
Proof. intros. apply step_inv_grows. assumption. Qed.

Lemma step_grows : forall s o, inv s -> grows s (snd (step s o)).
Proof. intros. apply step_inv_grows. assumption. Qed.

Lemma run_inv_grows : forall ops s, inv s -> inv (run s ops) /\ grows s (run s ops).
Proof.
  induction ops as [|o ops IH]; intros s I; simpl; [auto using grows_refl|].
  destruct (IH _ (step_inv s o I)) as [I' G']. split; [exact I'|].
  eapply grows_trans; [apply step_grows; exact I|exact G'].
Qed.

Lemma run_app : forall a b s, run s (a ++ b) = run (run s a) b.
Proof. induction a as [|o a IH]; intros b s; simpl; [reflexivity|apply IH]. Qed.

Lemma restart_inv : forall s, inv s -> inv (restart s).
Proof. intros s I. apply (step_inv s ORestart I). Qed.

Lemma restart_committed : forall s r o, committed s r o -> committed (restart s) r o.
Proof. intros s r o H. exact H. Qed.

(** once a root resolves it resolves for ever, to the same tree, and reads there are fixed *)
Theorem committed_forever : forall s r o ops,
  inv s -> committed s r o ->
  inv (run s ops) /\ committed (run s ops) r o /\
  (forall k, read (run s ops) r k = sget (o_elements o) k) /\
  (forall k, read (restart (run s ops)) r k = sget (o_elements o) k).
Proof.
  intros s r o ops I C. destruct (run_inv_grows ops s I) as [I' G'].
  assert (C' : committed (run s ops) r o) by (apply (committed_grows s); auto).
  split; [exact I'|]. split; [exact C'|]. split; intros k.
  - apply read_committed; auto.
  - apply read_committed; [apply restart_inv; exact I'|exact C'].
Qed.

(** ** operations that only touch the table *)
Definition table_only (o : op) : bool :=
  match o with OMemSet _ _ | ORollback _ | OGet _ _ => true | _ => false end.

Lemma table_only_db : forall s o, table_only o = true ->
  s_db (snd (step s o)) = s_db s /\ s_roots (snd (step s o)) = s_roots s.
Proof.
  intros s o H. destruct o as [p kvs|p kvs|r|r|r ks|]; try discriminate; cbn [step].
  - unfold mem_set. destruct kvs; [simpl; auto|].
    destruct (load_x s p); [|simpl; auto].
    destruct (t_set_all o (p0 :: kvs)) as [[t|]|]; simpl; auto.
  - unfold rollback. destruct (p_get (s_pend s) r); simpl; auto.
  - simpl. auto.
Qed.

Lemma table_only_run_db : forall ops s, forallb table_only ops = true ->
  s_db (run s ops) = s_db s /\ s_roots (run s ops) = s_roots s.
Proof.
  induction ops as [|o ops IH]; intros s H; simpl; [auto|].
  simpl in H. apply andb_prop in H. destruct H as [H1 H2].
  destruct (IH (snd (step s o)) H2) as [A B]. destruct (table_only_db s o H1) as [A1 B1].
  split; congruence.
Qed.

(** ** what waits under a root: the invariant behind "commit makes it readable" *)

(** the tree [oc] is the content of root [r] *)
Definition target (r : xroot) (oc : otree) : Prop := xr r = tree_root oc /\ o_good oc.

(** if the table holds only the nil marker under [r], then [r] is already in the database *)
Definition marker_safe (r : xroot) (oc : otree) (s : st) : Prop :=
  p_get (s_pend s) r = Some None -> committed s r oc.

(** the update of [r] has not been lost: something waits under [r], or [r] is in the database *)
Definition alive (r : xroot) (oc : otree) (s : st) : Prop :=
  p_get (s_pend s) r <> None \/ committed s r oc.

Definition empty_memset_on (r : xroot) (o : op) : bool :=
  match o with OMemSet x [] => xroot_eqb r x | _ => false end.

(** operations that throw away what waits under [r] *)
Definition discards (r : xroot) (o : op) : bool :=
  match o with ORollback x => xroot_eqb r x | ORestart => true | _ => false end.

Lemma target_pending : forall s r oc t, inv s -> target r oc ->
  p_get (s_pend s) r = Some (Some t) -> oc = Some t.
Proof.
  intros s r oc t [_ [_ PO]] [XR G] P. destruct (PO _ _ P) as [-> [HO HS]].
  apply good_same_root; simpl; auto.
Qed.

(** operations other than an empty MemSet on [r] never leave an unsafe marker under [r] *)
Lemma marker_safe_step_other : forall s r oc o, inv s -> target r oc -> marker_safe r oc s ->
  empty_memset_on r o = false ->
  marker_safe r oc (snd (step s o)).
Proof.
  intros s r oc o I T M Hg P.
  pose proof (step_grows s o I) as GR.
  assert (Keep : p_get (s_pend s) r = Some None -> committed (snd (step s o)) r oc).
  { intros P0. eapply committed_grows; eauto. }
  destruct o as [p kvs|p kvs|x|x|x ks|]; cbn [step] in *.
  - unfold mem_set in *. destruct kvs as [|kv kvs].
    + cbn [snd fst s_pend with_pend save_x] in P. simpl in Hg.
      rewrite p_get_put_absent_other in P by exact Hg. auto.
    + destruct (load_x s p) as [o|]; [|auto].
      destruct (t_set_all o (kv :: kvs)) as [[t|]|]; cbn [snd fst s_pend with_pend save_x] in P; auto.
      destruct (xroot_eqb r (XH (thash t))) eqn:E.
      * apply xroot_eqb_eq in E. subst r. rewrite p_get_put_same in P. discriminate.
      * rewrite p_get_put_other in P by exact E. auto.
  - unfold set_direct in *. destruct (load_x s p) as [o|]; [|auto].
    destruct (t_set_all o kvs) as [[t|]|]; cbn [snd fst s_pend with_pend save_x] in P; auto.
  - unfold commit in *. destruct (p_get (s_pend s) x) as [[t|]|] eqn:PX; cbn [snd fst s_pend with_pend save_x] in P; auto.
    + destruct (xroot_eqb r x) eqn:E.
      * apply xroot_eqb_eq in E. subst x. rewrite p_get_del_same in P. discriminate.
      * rewrite p_get_del_other in P by exact E. auto.
    + destruct (xroot_eqb r x) eqn:E.
      * apply xroot_eqb_eq in E. subst x. rewrite p_get_del_same in P. discriminate.
      * rewrite p_get_del_other in P by exact E. auto.
  - unfold rollback in *. destruct (p_get (s_pend s) x) as [y|] eqn:PX; cbn [snd fst s_pend with_pend save_x] in P; auto.
    destruct (xroot_eqb r x) eqn:E.
    + apply xroot_eqb_eq in E. subst x. rewrite p_get_del_same in P. discriminate.
    + rewrite p_get_del_other in P by exact E. auto.
  - cbn [snd fst s_pend with_pend save_x] in P. auto.
  - cbn [snd fst s_pend with_pend save_x] in P. discriminate.
Qed.

(** An empty MemSet on [r] leaves the marker only if NOTHING waits under [r]
    (LoadOrStore), so it cannot make the marker unsafe while the update is alive. *)
Lemma marker_safe_step : forall s r oc o, inv s -> target r oc -> marker_safe r oc s ->
  empty_memset_on r o = false \/ alive r oc s ->
  marker_safe r oc (snd (step s o)).
Proof.
  intros s r oc o I T M Hg.
  destruct (empty_memset_on r o) eqn:E; [|apply marker_safe_step_other; auto].
  destruct Hg as [Hg|[Ha|Hc]]; [discriminate| |].
  - (* something waits under [r]: the table is left as it is *)
    destruct o as [p kvs|p kvs|x|x|x ks|]; try discriminate.
    destruct kvs as [|kv kvs]; [|discriminate]. simpl in E.
    apply xroot_eqb_eq in E. subst p. intros P.
    cbn [step mem_set snd fst s_pend with_pend] in P.
    destruct (p_get (s_pend s) r) as [w|] eqn:E; [|congruence].
    rewrite (put_absent_some _ _ None w E) in P.
    apply (committed_grows s); auto using step_grows.
  - intros _. apply (committed_grows s); auto using step_grows.
Qed.

Lemma marker_safe_run : forall ops s r oc, inv s -> target r oc -> marker_safe r oc s ->
  forallb (fun o => negb (empty_memset_on r o)) ops = true ->
  marker_safe r oc (run s ops).
Proof.
  induction ops as [|o ops IH]; intros s r oc I T M H; simpl; [exact M|].
  simpl in H. apply andb_prop in H. destruct H as [H1 H2].
  apply IH; auto using step_inv.
  apply marker_safe_step; auto. left. destruct (empty_memset_on r o); [discriminate|reflexivity].
Qed.

(** an acknowledged Commit of [r] makes [r] resolve to its content *)
Lemma commit_ack : forall s r oc x, inv s -> target r oc -> marker_safe r oc s ->
  fst (step s (OCommit r)) = RRoot x ->
  committed (snd (step s (OCommit r))) r oc.
Proof.
  intros s r oc x I T M H. cbn [step] in *. unfold commit in *.
  destruct (p_get (s_pend s) r) as [[t|]|] eqn:P; simpl in *; try discriminate.
  - pose proof (target_pending s r oc t I T P). subst oc.
    destruct I as [WF [G PO]]. destruct (PO _ _ P) as [-> [HO HS]].
    apply save_x_committed; [split; auto|auto|auto].
  - apply (committed_grows s); auto using with_pend_grows.
Qed.

(** as long as nothing discards it, the update of [r] stays alive *)
Lemma alive_step : forall s r oc o, inv s -> target r oc -> marker_safe r oc s -> alive r oc s ->
  discards r o = false -> alive r oc (snd (step s o)).
Proof.
  intros s r oc o I T M [A|C] D; [|right; apply (committed_grows s); auto using step_grows].
  unfold alive. destruct o as [p kvs|p kvs|x|x|x ks|]; cbn [step].
  - unfold mem_set. destruct kvs as [|kv kvs].
    + left. cbn [snd s_pend with_pend]. destruct (xroot_eqb r p) eqn:E.
      * apply xroot_eqb_eq in E. subst p. apply p_get_put_absent_same.
      * rewrite p_get_put_absent_other by exact E. exact A.
    + destruct (load_x s p) as [o|]; [|left; exact A].
      destruct (t_set_all o (kv :: kvs)) as [[t|]|]; cbn [snd s_pend with_pend]; try (left; exact A).
      left. destruct (xroot_eqb r (XH (thash t))) eqn:E.
      * apply xroot_eqb_eq in E. subst r. rewrite p_get_put_same. discriminate.
      * rewrite p_get_put_other by exact E. exact A.
  - unfold set_direct. destruct (load_x s p) as [o|]; [|left; exact A].
    destruct (t_set_all o kvs) as [[t|]|]; cbn [snd s_pend save_x]; left; exact A.
  - destruct (xroot_eqb r x) eqn:E.
    + apply xroot_eqb_eq in E. subst x. right.
      destruct (p_get (s_pend s) r) as [w|] eqn:P; [|congruence].
      apply (commit_ack s r oc r I T M). cbn [step]. unfold commit. rewrite P.
      destruct w; reflexivity.
    + left. unfold commit.
      destruct (p_get (s_pend s) x) as [[t|]|]; cbn [snd s_pend with_pend save_x];
        try rewrite p_get_del_other by exact E; exact A.
  - simpl in D. left. unfold rollback.
    destruct (p_get (s_pend s) x) as [y|]; cbn [snd s_pend with_pend];
      try rewrite p_get_del_other by exact D; exact A.
  - left. exact A.
  - discriminate.
Qed.

(** no Rollback of [r] and no restart *)
Definition still_pending (r : xroot) (ops : list op) : bool :=
  forallb (fun o => negb (discards r o)) ops.

(** no empty MemSet on [r] after the first Rollback of [r] / restart *)
Fixpoint no_marker_after_discard (r : xroot) (ops : list op) : bool :=
  match ops with
  | [] => true
  | o :: tl =>
      if discards r o then forallb (fun o' => negb (empty_memset_on r o')) tl
      else no_marker_after_discard r tl
  end.

Lemma still_pending_general : forall r ops,
  still_pending r ops = true -> no_marker_after_discard r ops = true.
Proof.
  induction ops as [|o ops IH]; intros H; simpl in *; [reflexivity|].
  apply andb_prop in H. destruct H as [H1 H2].
  destruct (discards r o); [discriminate|auto].
Qed.

Lemma no_marker_general : forall r ops,
  forallb (fun o => negb (empty_memset_on r o)) ops = true -> no_marker_after_discard r ops = true.
Proof.
  induction ops as [|o ops IH]; intros H; simpl in *; [reflexivity|].
  apply andb_prop in H. destruct H as [H1 H2].
  destruct (discards r o); auto.
Qed.

Lemma marker_safe_run_general : forall ops s r oc, inv s -> target r oc ->
  marker_safe r oc s -> alive r oc s ->
  no_marker_after_discard r ops = true ->
  marker_safe r oc (run s ops).
Proof.
  induction ops as [|o ops IH]; intros s r oc I T M A H; simpl; [exact M|].
  simpl in H. destruct (discards r o) eqn:D.
  - apply marker_safe_run; auto using step_inv.
    apply marker_safe_step; [exact I|exact T|exact M|right; exact A].
  - apply IH; auto using step_inv.
    + apply marker_safe_step; [exact I|exact T|exact M|right; exact A].
    + apply alive_step; auto.
Qed.

(** what MemSet leaves behind *)
Lemma mem_set_spec : forall s p o kvs r s1, inv s -> committed s p o ->
  mem_set s p kvs = (RRoot r, s1) ->
  exists oc, target r oc /\ o_elements oc = apply_writes (o_elements o) kvs /\
             marker_safe r oc s1 /\ alive r oc s1 /\ (r = p -> oc = o).
Proof.
  intros s p o kvs r s1 I C H. pose proof (committed_good _ _ _ I C) as [G [ST XR]].
  unfold mem_set in H. destruct kvs as [|kv kvs].
  - injection H as <- <-. exists o. split; [split; auto|]. split; [reflexivity|].
    split; [|split; [|auto]].
    + intros _. apply (committed_grows s); auto using with_pend_grows.
    + left. cbn [s_pend with_pend]. apply p_get_put_absent_same.
  - unfold committed in C. rewrite C in H.
    destruct (update_tree s p o (kv :: kvs) I C) as [o' [E [G' HE]]]. rewrite E in H.
    destruct o' as [t|].
    + injection H as <- <-. exists (Some t). split; [split; simpl; auto|]. split; [exact HE|].
      split; [|split].
      * intros P. cbn [s_pend with_pend] in P. rewrite p_get_put_same in P. discriminate.
      * left. cbn [s_pend with_pend]. rewrite p_get_put_same. discriminate.
      * intros EQ. apply good_same_root; auto. rewrite <- XR, <- EQ. reflexivity.
    + injection H as <- <-. exists None. split; [split; simpl; auto|]. split; [exact HE|].
      split; [|split; [|intros EQ; apply good_same_root; auto; rewrite <- XR, <- EQ; reflexivity]].
      * intros _. unfold committed. reflexivity.
      * right. unfold committed. reflexivity.
Qed.
