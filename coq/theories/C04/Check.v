(** C04 — correspondence check.

    A case is a history of store operations with what the Go store answered.
    Byte strings live in two tables (keys, values) and are named by index; a
    state hash is named by a token (0 = nil, 1 = 32 zero bytes, then in order
    of first appearance in the implementation's replies).

    [CSeq]: a sequential history, replayed by the model step by step.
    [CConc]: operations issued concurrently through the store module's queue;
    every operation carries the logical times of its invocation and of its
    reply; the check searches an order of the operations that respects "replied
    before invoked" and in which the model gives every recorded reply (a TEST of
    the tie at operation granularity; intra-operation interleavings are outside
    the model).

    The specification oracle ([Spec.sstep]) runs on the implementation's replies
    only.  Known finding 2 is recognised from the case itself: the first rejected
    reply is ErrHashNotFound to a Commit of the nil hash sent through the queue.
    (Finding 1 - an empty MemSet replaced a pending tree by the marker - is fixed
    in chain33; a read that returns nothing at an acknowledged root is a violation
    like any other.)

    The histories run in child processes of the harness.  When the store takes
    its process down (a panic in one of the module's goroutines cannot be
    recovered), the history ends there: the operation in flight carries the
    reply [OCrashed] ([IIdle] stands for "no operation was in flight").  The
    model never predicts it and the specification rejects it. *)
From Coq Require Import List ZArith NArith Bool.
From C33 Require Import Lib.Harness C01.Keys C01.Model C01.Spec C01.Store C04.Model C04.Spec.
Import ListNotations.

Inductive iop :=
| IMemSet (p : N) (kvs : list (N * N))      (* parent token, (key index, value index) *)
| ISet (p : N) (kvs : list (N * N))
| ICommit (r : N)
| IRollback (r : N)
| IGet (r : N)                               (* Store.Get of every key of the table *)
| IRestart                                   (* close and reopen the database *)
| IForeign (kvs : list (N * N))              (* root of these writes on an unrelated store *)
| ICount                                     (* number of entries of the database *)
| IIdle.                                     (* nothing (only recorded with [OCrashed]) *)

Inductive iout :=
| ORoot (t : N)
| OVals (vs : list N)                        (* 0 = nil or empty, i+1 = value i of the table *)
| ONotExist | ONotFound | OPanic | OOther | OUnit
| ONum (n : N)
| OCrashed.                                  (* the process of the store died during the operation *)

Inductive case :=
| CSeq (pfx q : bool) (keys vals : list bytes) (steps : list (iop * iout))
| CConc (pfx : bool) (keys vals : list bytes) (steps : list (iop * iout * (N * N))).

Definition nth_b (l : list bytes) (i : N) : bytes := nth (N.to_nat i) l [].

Definition kvs_of (keys vals : list bytes) (l : list (N * N)) : list (bytes * bytes) :=
  map (fun b => (nth_b keys (fst b), nth_b vals (snd b))) l.

(** value index as the harness computes it *)
Fixpoint index_of (vals : list bytes) (v : bytes) (i : N) : N :=
  match vals with
  | [] => 0%N
  | x :: tl => if beq x v then (i + 1)%N else index_of tl v (i + 1)%N
  end.

Definition val_code (vals : list bytes) (v : option bytes) : N :=
  match canon v with
  | None => 0%N
  | Some b => index_of vals b 0%N
  end.

Definition env := list (N * xroot).
Definition env0 : env := [(0%N, XNil); (1%N, XZero)].

Definition bind_root (e : env) (t : N) (x : xroot) : option env :=
  match a_get e t with
  | Some x' => if xroot_eqb x x' then Some e else None
  | None => if existsb (fun b => xroot_eqb x (snd b)) e then None else Some ((t, x) :: e)
  end.

Definition nlist_eqb : list N -> list N -> bool := list_eqb N.eqb.

(** does the implementation's reply equal the model's?  (new environment) *)
Definition agree (vals : list bytes) (e : env) (io : iout) (mo : out) : option env :=
  match io, mo with
  | ORoot t, RRoot x => bind_root e t x
  | OVals vs, RVals ws => if nlist_eqb vs (map (val_code vals) ws) then Some e else None
  | ONotExist, RErrNotExist => Some e
  | ONotFound, RErrNotFound => Some e
  | OPanic, RPanic => Some e
  | OUnit, RUnit => Some e
  | _, _ => None
  end.

(** the model's step for a harness operation; [None] = a token that names nothing yet *)
Definition mstep0 (keys vals : list bytes) (e : env) (s : st) (o : iop) : option (out * st) :=
  match o with
  | IMemSet p kvs => match a_get e p with
                     | Some x => Some (step s (OMemSet x (kvs_of keys vals kvs)))
                     | None => None
                     end
  | ISet p kvs => match a_get e p with
                  | Some x => Some (step s (OSet x (kvs_of keys vals kvs)))
                  | None => None
                  end
  | ICommit r => match a_get e r with Some x => Some (step s (OCommit x)) | None => None end
  | IRollback r => match a_get e r with Some x => Some (step s (ORollback x)) | None => None end
  | IGet r => match a_get e r with Some x => Some (step s (OGet x keys)) | None => None end
  | IRestart => Some (step s ORestart)
  | IForeign kvs => Some (RRoot (foreign_root (kvs_of keys vals kvs)), s)
  | ICount => Some (RUnit, s)                 (* compared separately *)
  | IIdle => Some (RUnit, s)
  end.

(** through the queue, the reply to a Commit is what base.go makes of it *)
Definition mstep (q : bool) (keys vals : list bytes) (e : env) (s : st) (o : iop) : option (out * st) :=
  match mstep0 keys vals e s o with
  | Some (mo, s') =>
      Some (match o with
            | ICommit _ => if q then via_queue (OCommit XNil) mo else mo
            | _ => mo
            end, s')
  | None => None
  end.

Definition magree (q : bool) (keys vals : list bytes) (e : env) (s : st) (o : iop) (io : iout) : option (env * st) :=
  match o, io with
  | ICount, ONum n => if N.eqb n (db_count s) then Some (e, s) else None
  | ICount, _ => None
  | _, _ =>
      match mstep q keys vals e s o with
      | None => None
      | Some (mo, s') => match agree vals e io mo with
                         | Some e' => Some (e', s')
                         | None => None
                         end
      end
  end.

(** the same step for the specification oracle *)
Definition to_sop (keys vals : list bytes) (o : iop) : sop :=
  match o with
  | IMemSet p kvs => SMemSet p (kvs_of keys vals kvs)
  | ISet p kvs => SSet p (kvs_of keys vals kvs)
  | ICommit r => SCommit r
  | IRollback r => SRollback r
  | IGet r => SGet r keys
  | IRestart => SRestart
  | IForeign kvs => SForeign (kvs_of keys vals kvs)
  | ICount => SOther
  | IIdle => SOther
  end.

Definition val_of (vals : list bytes) (c : N) : option bytes :=
  match c with
  | 0%N => None
  | _ => Some (nth_b vals (c - 1)%N)
  end.

Definition to_sout (vals : list bytes) (io : iout) : sout :=
  match io with
  | ORoot t => SRoot t
  | OVals vs => SVals (map (val_of vals) vs)
  | ONotFound => SNotFound
  | OCrashed => SCrash
  | _ => SFail
  end.

Record acc := mk_acc {
  a_st : st; a_env : env; a_sst : sst;
  a_m : bool; a_s : bool; a_kf : N }.

Definition acc0 (pfx : bool) : acc := mk_acc (st0 pfx) env0 sst0 true true 0%N.

Definition seq_step (q : bool) (keys vals : list bytes) (a : acc) (b : iop * iout) : acc :=
  let strict := s_pfx (a_st a) in
  let '(o, io) := b in
  (* the specification first: it only needs the replies *)
  let '(ss', ok) := sstep strict (a_sst a) (to_sop keys vals o) (to_sout vals io) in
  (* finding 2: through the queue, an acknowledged-as-failed Commit of the nil hash that waits *)
  let hit2 := match o, io with
              | ICommit r, ONotFound =>
                  q && match a_get (a_env a) r with Some XNil => true | _ => false end
              | _, _ => false
              end in
  let kf' := if a_s a && negb ok then (if hit2 then 2%N else 0%N) else a_kf a in
  let s_ok := a_s a && ok in
  if a_m a then
    match magree q keys vals (a_env a) (a_st a) o io with
    | Some (e', s') => mk_acc s' e' ss' true s_ok kf'
    | None => mk_acc (a_st a) (a_env a) ss' false s_ok kf'
    end
  else mk_acc (a_st a) (a_env a) ss' false s_ok kf'.

Definition seq_verdict (pfx q : bool) (keys vals : list bytes) (steps : list (iop * iout)) : verdict :=
  let a := fold_left (seq_step q keys vals) steps (acc0 pfx) in
  (a_m a, a_s a, a_kf a).

(** ---- search for a sequential order of a concurrent history ---- *)
Definition cstep := (iop * iout * (N * N))%type.
Definition c_inv (c : cstep) : N := fst (snd c).
Definition c_resp (c : cstep) : N := snd (snd c).

(** nothing that is still to be placed replied before [c] was invoked *)
Definition minimal (c : cstep) (rem : list cstep) : bool :=
  forallb (fun d => negb (c_resp d <? c_inv c)%N) rem.

(** invocation times are unique: they identify the step *)
Definition drop (c : cstep) (rem : list cstep) : list cstep :=
  filter (fun d => negb (c_inv d =? c_inv c)%N) rem.

(** [b]: how many candidate steps the search may still try.  Without a bound a history
    that has NO order costs the product of the orders of its phases (hours for four phases
    of six operations); a history that has one is placed almost greedily (the largest
    search seen on the unchanged store tried fewer than 400 candidates). *)
Fixpoint lin (fuel : nat) (keys vals : list bytes) (e : env) (s : st) (rem : list cstep) (b : N)
  : option (list (iop * iout)) * N :=
  match rem with
  | [] => (Some [], b)
  | _ =>
    match fuel with
    | O => (None, b)
    | S f =>
        fold_left (fun (acc : option (list (iop * iout)) * N) (c : cstep) =>
          let '(found, b1) := acc in
          match found with
          | Some _ => acc
          | None =>
              if (b1 =? 0)%N then acc
              else if minimal c rem then
                match magree true keys vals e s (fst (fst c)) (snd (fst c)) with
                | None => (None, (b1 - 1)%N)
                | Some (e', s') =>
                    match lin f keys vals e' s' (drop c rem) (b1 - 1)%N with
                    | (Some tl, b2) => (Some (fst c :: tl), b2)
                    | (None, b2) => (None, b2)
                    end
                end
              else acc
          end) rem (None, b)
    end
  end.

Definition lin_budget : N := 40000%N.

(** candidates tried for a concurrent history (statistics only) *)
Definition lin_cost (c : case) : N :=
  match c with
  | CSeq _ _ _ _ _ => 0%N
  | CConc pfx keys vals steps =>
      (lin_budget - snd (lin (length steps) keys vals env0 (st0 pfx) steps lin_budget))%N
  end.

Definition crashed (io : iout) : bool :=
  match io with OCrashed => true | _ => false end.

Definition check_case (c : case) : verdict :=
  match c with
  | CSeq pfx q keys vals steps => seq_verdict pfx q keys vals steps
  | CConc pfx keys vals steps =>
      if existsb (fun c => crashed (snd (fst c))) steps
      then (false, false, 0%N)         (* the store died under one of the requests in flight *)
      else
      match fst (lin (length steps) keys vals env0 (st0 pfx) steps lin_budget) with
      | Some order => seq_verdict pfx true keys vals order
      | None => (false, true, 0%N)     (* no order explains the replies (or none was found within
                                          [lin_budget] candidates): the correspondence is broken *)
      end
  end.

(** the new reply class is classified as intended: never the model's answer, never allowed *)
Example crashed_commit_rejected :
  check_case (CSeq false true [[1%N]] [[2%N]]
                [(IMemSet 0 [(0%N, 0%N)], ORoot 2); (IGet 2, OVals [1%N]); (ICommit 2, OCrashed)])
  = (false, false, 0%N).
Proof. vm_compute. reflexivity. Qed.

Example crashed_idle_rejected :
  check_case (CSeq false false [[1%N]] [[2%N]] [(IIdle, OCrashed)]) = (false, false, 0%N).
Proof. vm_compute. reflexivity. Qed.

Example idle_alone_fine :
  check_case (CSeq false false [[1%N]] [[2%N]] [(IIdle, OUnit)]) = (true, true, 0%N).
Proof. vm_compute. reflexivity. Qed.

Example crashed_concurrent_rejected :
  check_case (CConc false [[1%N]] [[2%N]]
                [(IMemSet 0 [(0%N, 0%N)], ORoot 2, (1%N, 2%N)); (ICommit 2, OCrashed, (3%N, 0%N))])
  = (false, false, 0%N).
Proof. vm_compute. reflexivity. Qed.
