(** C04 — executable model of the mavl store layer as a state machine
    (system/store/mavl/mavl.go: Store.Set / MemSet / Commit / Rollback / Get, the
    table [mavls.trees] of pending trees; "restart" = close and reopen the
    database, which drops the table).  Built on C01's tree model ([C01.Model])
    and node database with symbolic hashes ([C01.Store]).  No proofs here.

    State = (node database, table of pending trees).  The table is keyed by
    [string(hash)] in Go, so the two spellings of the empty root (nil and 32 zero
    bytes) are different keys: [xroot].

    The model follows the code as it is, including the empty-batch shortcut of
    MemSet: it leaves the marker nil under the PARENT hash unless the table
    already holds something there (sync.Map.LoadOrStore: a tree that waits under
    that hash, or an earlier marker, is kept).  It does not look whether the
    parent resolves in the database.

    Configuration: no MVCC / prune / memTree.  EnableMavlPrefix ([s_pfx]) changes
    database keys only: every node except the root of the tree being hashed is
    stored under "_mb_/_mh_-<block height>-" ++ hash, the root under its plain
    hash.  Parents refer to their children by the stored key, so a saved version
    is read back exactly as without the prefix; the one observable difference is
    that a hash resolves as a STATE ROOT only if some tree was saved with it as
    its root ([s_roots]) — without the prefix every stored sub-tree's hash
    resolves too.  The ARC node cache holds
    persisted nodes only (C02_cache_sound_invariant) and is not represented.
    memTree configurations are C02's subject (its known findings 1-2 are leaks
    of pending nodes through memTree) and are outside this model.

    Lazy loading: Go loads the root in [Tree.Load] and children on demand; the
    model materialises the version ([load_tree]).  They differ only on databases
    with dangling children, which no history produces (C01 [stored_load]). *)
From Coq Require Import List ZArith NArith Bool.
From C33 Require Import C01.Keys C01.Model C01.Spec C01.Store.
Import ListNotations.
Open Scope Z_scope.

(** A state hash as the store API sees it. *)
Inductive xroot :=
| XNil                (* nil / empty slice *)
| XZero               (* 32 zero bytes *)
| XH (h : hash).

Definition xr (x : xroot) : root :=
  match x with XH h => Some h | _ => None end.

Definition xroot_eqb (a b : xroot) : bool :=
  match a, b with
  | XNil, XNil => true
  | XZero, XZero => true
  | XH x, XH y => hash_eqb x y
  | _, _ => false
  end.

(** what Tree.Save / Tree.Hash return for a tree *)
Definition xroot_of (o : otree) : xroot :=
  match o with None => XNil | Some t => XH (thash t) end.

(** [mavls.trees]: [None] is the nil marker of the empty-batch shortcut,
    [Some t] a tree that was built and hashed but not saved. *)
Definition pending := list (xroot * option tree).

Fixpoint p_get (p : pending) (r : xroot) : option (option tree) :=
  match p with
  | [] => None
  | (r', t) :: tl => if xroot_eqb r r' then Some t else p_get tl r
  end.

Definition p_del (p : pending) (r : xroot) : pending :=
  filter (fun b => negb (xroot_eqb r (fst b))) p.

(** sync.Map.Store *)
Definition p_put (p : pending) (r : xroot) (t : option tree) : pending :=
  (r, t) :: p_del p r.

(** sync.Map.LoadOrStore: an existing entry (a tree or the marker) is kept *)
Definition p_put_absent (p : pending) (r : xroot) (t : option tree) : pending :=
  match p_get p r with
  | Some _ => p
  | None => p_put p r t
  end.

Record st := mk_st { s_pfx : bool; s_db : db; s_roots : list hash; s_pend : pending }.

Definition st0 (pfx : bool) : st := mk_st pfx [] [] [].

Definition with_pend (s : st) (p : pending) : st := mk_st (s_pfx s) (s_db s) (s_roots s) p.

Definition is_root (s : st) (h : hash) : bool := existsb (hash_eqb h) (s_roots s).

(** Tree.Load of a state hash *)
Definition load_x (s : st) (r : xroot) : option otree :=
  match r with
  | XH h => if s_pfx s && negb (is_root s h) then None else load_tree (s_db s) (Some h)
  | _ => Some None
  end.

(** Tree.Save of a tree *)
Definition save_x (s : st) (t : tree) (p : pending) : st :=
  mk_st (s_pfx s) (save (s_db s) t) (thash t :: s_roots s) p.

(** operations of the store module *)
Inductive op :=
| OMemSet (p : xroot) (kvs : list (bytes * bytes))
| OSet (p : xroot) (kvs : list (bytes * bytes))
| OCommit (r : xroot)
| ORollback (r : xroot)
| OGet (r : xroot) (ks : list bytes)
| ORestart.

Inductive out :=
| RRoot (r : xroot)
| RVals (vs : list (option bytes))
| RErrNotExist          (* Tree.Load: ErrNodeNotExist *)
| RErrNotFound          (* Commit / Rollback: ErrHashNotFound *)
| RPanic                (* Tree.Set panicked: database damaged *)
| RUnit.

(** Store.MemSet *)
Definition mem_set (s : st) (p : xroot) (kvs : list (bytes * bytes)) : out * st :=
  match kvs with
  | [] => (RRoot p, with_pend s (p_put_absent (s_pend s) p None))
  | _ =>
      match load_x s p with
      | None => (RErrNotExist, s)
      | Some o =>
          match t_set_all o kvs with
          | None => (RPanic, s)
          | Some None => (RRoot XNil, s)                       (* unreachable: kvs <> [] *)
          | Some (Some t) =>
              (RRoot (XH (thash t)), with_pend s (p_put (s_pend s) (XH (thash t)) (Some t)))
          end
      end
  end.

(** Store.Set = SetKVPair: load, write, save *)
Definition set_direct (s : st) (p : xroot) (kvs : list (bytes * bytes)) : out * st :=
  match load_x s p with
  | None => (RErrNotExist, s)
  | Some o =>
      match t_set_all o kvs with
      | None => (RPanic, s)
      | Some None => (RRoot XNil, s)
      | Some (Some t) => (RRoot (XH (thash t)), save_x s t (s_pend s))
      end
  end.

(** Store.Commit *)
Definition commit (s : st) (r : xroot) : out * st :=
  match p_get (s_pend s) r with
  | None => (RErrNotFound, s)
  | Some None => (RRoot r, with_pend s (p_del (s_pend s) r))
  | Some (Some t) => (RRoot r, save_x s t (p_del (s_pend s) r))
  end.

(** Store.Rollback *)
Definition rollback (s : st) (r : xroot) : out * st :=
  match p_get (s_pend s) r with
  | None => (RErrNotFound, s)
  | Some _ => (RRoot r, with_pend s (p_del (s_pend s) r))
  end.

(** Store.Get for one key: a pending tree under exactly this hash is used if
    there is one (a nil marker is not), otherwise the version is loaded. *)
Definition read (s : st) (r : xroot) (k : bytes) : option bytes :=
  match p_get (s_pend s) r with
  | Some (Some t) => snd (get t k)
  | _ => match load_x s r with
         | None => None
         | Some o => snd (t_get o k)
         end
  end.

Definition restart (s : st) : st := with_pend s [].

Definition step (s : st) (o : op) : out * st :=
  match o with
  | OMemSet p kvs => mem_set s p kvs
  | OSet p kvs => set_direct s p kvs
  | OCommit r => commit s r
  | ORollback r => rollback s r
  | OGet r ks => (RVals (map (read s r) ks), s)
  | ORestart => (RUnit, restart s)
  end.

Fixpoint run (s : st) (ops : list op) : st :=
  match ops with
  | [] => s
  | o :: tl => run (snd (step s o)) tl
  end.

(** the outputs along a run *)
Fixpoint outs (s : st) (ops : list op) : list out :=
  match ops with
  | [] => []
  | o :: tl => fst (step s o) :: outs (snd (step s o)) tl
  end.

(** system/store/base.go processMessage: the module's reply to EventStoreCommit is
    ErrHashNotFound whenever the hash Commit returned is nil — also when Commit
    succeeded on the nil state hash (finding C04-2).  Every other reply is passed on. *)
Definition via_queue (o : op) (r : out) : out :=
  match o, r with
  | OCommit _, RRoot XNil => RErrNotFound
  | _, _ => r
  end.

(** A root computed on an unrelated database (the harness uses it as a hash
    the store has never seen). *)
Definition foreign_root (kvs : list (bytes * bytes)) : xroot :=
  match t_set_all None kvs with
  | Some o => xroot_of o
  | None => XNil
  end.

(** number of bindings in the node database *)
Definition db_count (s : st) : N := N.of_nat (length (s_db s)).
