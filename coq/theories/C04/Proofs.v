(** C04 — invariants of the store state machine and the basic read lemma:
    a read at a root that resolves in the database is a function of that root's
    content only (the table of pending trees cannot change it). *)
From Coq Require Import List ZArith NArith Bool Lia.
From C33 Require Import C01.Keys C01.KeysFacts C01.Model C01.Spec C01.Store C01.Inv
  C01.Proofs C01.ProofsStore C04.Model.
Import ListNotations.
Open Scope Z_scope.

(** ** roots and the table *)

Lemma xroot_eqb_refl : forall a, xroot_eqb a a = true.
Proof. intros [| |h]; simpl; auto using hash_eqb_refl. Qed.

Lemma xroot_eqb_eq : forall a b, xroot_eqb a b = true -> a = b.
Proof.
  intros [| |x] [| |y]; simpl; intros H; try discriminate; auto.
  apply hash_eqb_eq in H. congruence.
Qed.

Lemma xroot_eqb_neq : forall a b, xroot_eqb a b = false -> a <> b.
Proof. intros a b H E. subst b. rewrite xroot_eqb_refl in H. discriminate. Qed.

Lemma xroot_eqb_sym : forall a b, xroot_eqb a b = xroot_eqb b a.
Proof.
  intros a b. destruct (xroot_eqb a b) eqn:E.
  - apply xroot_eqb_eq in E. subst. symmetry. apply xroot_eqb_refl.
  - destruct (xroot_eqb b a) eqn:E2; [|reflexivity].
    apply xroot_eqb_eq in E2. subst. rewrite xroot_eqb_refl in E. discriminate.
Qed.

Lemma p_get_del_same : forall p r, p_get (p_del p r) r = None.
Proof.
  induction p as [|[x v] p IH]; intros r; simpl; [reflexivity|].
  destruct (xroot_eqb r x) eqn:E; simpl; [apply IH|]. rewrite E. apply IH.
Qed.

Lemma p_get_del_other : forall p r x, xroot_eqb r x = false -> p_get (p_del p x) r = p_get p r.
Proof.
  induction p as [|[y v] p IH]; intros r x H; simpl; [reflexivity|].
  destruct (xroot_eqb x y) eqn:E; simpl.
  - apply xroot_eqb_eq in E. subst y. rewrite H. apply IH. exact H.
  - destruct (xroot_eqb r y); [reflexivity|]. apply IH. exact H.
Qed.

Lemma p_get_put_same : forall p r v, p_get (p_put p r v) r = Some v.
Proof. intros. unfold p_put. simpl. rewrite xroot_eqb_refl. reflexivity. Qed.

Lemma p_get_put_other : forall p r x v, xroot_eqb r x = false -> p_get (p_put p x v) r = p_get p r.
Proof. intros. unfold p_put. simpl. rewrite H. apply p_get_del_other. exact H. Qed.

Lemma put_absent_some : forall p r v w, p_get p r = Some w -> p_put_absent p r v = p.
Proof. intros p r v w H. unfold p_put_absent. rewrite H. reflexivity. Qed.

Lemma put_absent_none : forall p r v, p_get p r = None -> p_put_absent p r v = p_put p r v.
Proof. intros p r v H. unfold p_put_absent. rewrite H. reflexivity. Qed.

(** after LoadOrStore the key is present *)
Lemma p_get_put_absent_same : forall p r v, p_get (p_put_absent p r v) r <> None.
Proof.
  intros p r v. unfold p_put_absent. destruct (p_get p r) as [w|] eqn:E.
  - rewrite E. discriminate.
  - rewrite p_get_put_same. discriminate.
Qed.

Lemma p_get_put_absent_other : forall p r x v, xroot_eqb r x = false ->
  p_get (p_put_absent p x v) r = p_get p r.
Proof.
  intros p r x v H. unfold p_put_absent. destruct (p_get p x); [reflexivity|].
  apply p_get_put_other. exact H.
Qed.

(** ** invariants *)

(** every stored node is a node of an ordered tree with correct heights and sizes *)
Definition db_good (d : db) : Prop :=
  forall h r, db_get d h = Some r -> exists t, ordered t /\ sized t /\ thash t = h.

(** a pending tree sits under its own hash and is a well-formed search tree *)
Definition pend_ok (p : pending) : Prop :=
  forall r t, p_get p r = Some (Some t) -> r = XH (thash t) /\ ordered t /\ sized t.

Definition inv (s : st) : Prop := db_wf (s_db s) /\ db_good (s_db s) /\ pend_ok (s_pend s).

Lemma inv_st0 : forall pfx, inv (st0 pfx).
Proof.
  intros pfx. split; [apply db_wf_empty|]. split.
  - intros h r H. discriminate.
  - intros r t H. discriminate.
Qed.

Lemma ordered_sub : forall k h s l r, ordered (Node k h s l r) -> ordered l /\ ordered r.
Proof. intros k h s l r H. simpl in H. tauto. Qed.

Lemma sized_sub : forall k h s l r, sized (Node k h s l r) -> sized l /\ sized r.
Proof. intros k h s l r H. simpl in H. tauto. Qed.

Lemma save_good : forall t d, db_good d -> ordered t -> sized t -> db_good (save d t).
Proof.
  induction t as [k v|k h s l IHl r IHr]; intros d G HO HS.
  - cbn [save]. destruct (db_has d (thash (Leaf k v))); [exact G|].
    intros h0 r0 H. unfold db_put in H. cbn [db_get] in H.
    destruct (hash_eqb h0 (thash (Leaf k v))) eqn:E.
    + apply hash_eqb_eq in E. exists (Leaf k v). auto.
    + apply (G _ _ H).
  - cbn [save]. destruct (db_has d (thash (Node k h s l r))); [exact G|].
    destruct (ordered_sub _ _ _ _ _ HO) as [Ol Or].
    destruct (sized_sub _ _ _ _ _ HS) as [Sl Sr].
    pose proof (IHr _ (IHl _ G Ol Sl) Or Sr) as G2.
    intros h0 r0 H. unfold db_put in H. cbn [db_get] in H.
    destruct (hash_eqb h0 (thash (Node k h s l r))) eqn:E.
    + apply hash_eqb_eq in E. exists (Node k h s l r). auto.
    + apply (G2 _ _ H).
Qed.

(** what resolves in a good database is a good, completely stored tree *)
Lemma load_good : forall d h o,
  db_wf d -> db_good d -> load_tree d (Some h) = Some o ->
  exists t, o = Some t /\ ordered t /\ sized t /\ stored d t /\ thash t = h.
Proof.
  intros d h o WF G H. cbn [load_tree] in H.
  destruct (load_root d h) as [t|] eqn:L; [|discriminate].
  injection H as <-.
  unfold load_root in L. destruct (db_get d h) as [rc|] eqn:E; [|discriminate].
  destruct (G _ _ E) as [t0 [O0 [S0 H0]]].
  destruct (WF _ _ E) as [t1 [K1 [H1 ST1]]].
  assert (t1 = t0) by (apply thash_inj; auto using ordered_keyed; congruence). subst t1.
  pose proof (load_root_stored t0 d ST1 S0) as L0. rewrite H0 in L0.
  unfold load_root in L0. rewrite E in L0. rewrite L0 in L. injection L as <-.
  exists t0. auto.
Qed.

(** [committed s r o]: the hash [r] resolves in the store, to the tree [o] *)
Definition committed (s : st) (r : xroot) (o : otree) : Prop := load_x s r = Some o.

Lemma committed_good : forall s r o, inv s -> committed s r o ->
  o_good o /\ o_stored (s_db s) o /\ xr r = tree_root o.
Proof.
  intros s r o [WF [G _]] H. unfold committed, load_x in H.
  destruct r as [| |h].
  - injection H as <-. simpl. auto.
  - injection H as <-. simpl. auto.
  - destruct (s_pfx s && negb (is_root s h)); [discriminate|].
    destruct (load_good _ _ _ WF G H) as [t [-> [HO [HS [ST HH]]]]].
    simpl. subst h. auto.
Qed.

(** the same tree under the same hash *)
Lemma good_same_root : forall o1 o2, o_good o1 -> o_good o2 -> tree_root o1 = tree_root o2 -> o1 = o2.
Proof.
  intros [t1|] [t2|] G1 G2 H; simpl in H; try discriminate; auto.
  injection H as H. f_equal. destruct G1, G2. apply thash_inj; auto using ordered_keyed.
Qed.

(** ** a read at a committed root sees its content, whatever is pending *)
Theorem read_committed : forall s r o k,
  inv s -> committed s r o -> read s r k = sget (o_elements o) k.
Proof.
  intros s r o k I C. pose proof (committed_good _ _ _ I C) as [G [ST XR]].
  unfold read. destruct (p_get (s_pend s) r) as [[t|]|] eqn:P.
  - destruct I as [_ [_ PO]]. destruct (PO _ _ P) as [-> [HO HS]].
    assert (o = Some t).
    { apply good_same_root; auto. simpl; auto. }
    subst o. simpl. apply get_elements. exact HO.
  - unfold committed in C. rewrite C. apply t_get_elements. exact G.
  - unfold committed in C. rewrite C. apply t_get_elements. exact G.
Qed.

(** ** monotonicity *)

Definition roots_incl (s s' : st) : Prop := forall h, is_root s h = true -> is_root s' h = true.

Definition grows (s s' : st) : Prop :=
  db_extends (s_db s) (s_db s') /\ roots_incl s s' /\ s_pfx s' = s_pfx s.

Lemma grows_refl : forall s, grows s s.
Proof. intros s. split; [apply db_extends_refl|]. split; [intros h H; exact H|reflexivity]. Qed.

Lemma grows_trans : forall a b c, grows a b -> grows b c -> grows a c.
Proof.
  intros a b c [X1 [R1 P1]] [X2 [R2 P2]]. split; [eapply db_extends_trans; eauto|].
  split; [intros h H; auto|congruence].
Qed.

Lemma committed_grows : forall s s' r o,
  inv s -> grows s s' -> committed s r o -> committed s' r o.
Proof.
  intros s s' r o I [X [R P]] C.
  pose proof (committed_good _ _ _ I C) as [G [ST XR]].
  unfold committed, load_x in *. destruct r as [| |h]; auto.
  rewrite P. destruct (s_pfx s && negb (is_root s h)) eqn:E; [discriminate|].
  assert (E' : s_pfx s && negb (is_root s' h) = false).
  { destruct (s_pfx s); [|reflexivity]. simpl in *.
    destruct (is_root s h) eqn:E2; [|discriminate]. rewrite (R _ E2). reflexivity. }
  rewrite E'. simpl in XR. rewrite XR.
  apply load_tree_stored; [eapply o_stored_ext; eauto|exact G].
Qed.

Lemma with_pend_grows : forall s p, grows s (with_pend s p).
Proof. intros. split; [apply db_extends_refl|]. split; [intros h H; exact H|reflexivity]. Qed.

Lemma save_x_grows : forall s t p, db_wf (s_db s) -> keyed t -> grows s (save_x s t p).
Proof.
  intros s t p WF K. split; [apply save_spec; auto|]. split; [|reflexivity].
  intros h H. unfold is_root, save_x in *. simpl. rewrite H. apply orb_true_r.
Qed.

Lemma save_x_inv : forall s t p, inv s -> ordered t -> sized t -> pend_ok p -> inv (save_x s t p).
Proof.
  intros s t p [WF [G _]] HO HS PO. split; [|split].
  - simpl. apply save_spec; auto using ordered_keyed.
  - simpl. apply save_good; auto.
  - exact PO.
Qed.

Lemma save_x_committed : forall s t p, inv s -> ordered t -> sized t ->
  committed (save_x s t p) (XH (thash t)) (Some t).
Proof.
  intros s t p [WF [G _]] HO HS. unfold committed, load_x.
  assert (R : is_root (save_x s t p) (thash t) = true).
  { unfold is_root, save_x. simpl. rewrite hash_eqb_refl. reflexivity. }
  rewrite R. rewrite andb_false_r.
  change (Some (thash t)) with (tree_root (Some t)).
  apply load_tree_stored; simpl; auto.
  apply save_spec; auto using ordered_keyed.
Qed.

Lemma pend_ok_del : forall p r, pend_ok p -> pend_ok (p_del p r).
Proof.
  intros p r PO x t H. destruct (xroot_eqb x r) eqn:E.
  - apply xroot_eqb_eq in E. subst x. rewrite p_get_del_same in H. discriminate.
  - rewrite p_get_del_other in H by exact E. apply (PO _ _ H).
Qed.

Lemma pend_ok_put_none : forall p r, pend_ok p -> pend_ok (p_put p r None).
Proof.
  intros p r PO x t H. destruct (xroot_eqb x r) eqn:E.
  - apply xroot_eqb_eq in E. subst x. rewrite p_get_put_same in H. discriminate.
  - rewrite p_get_put_other in H by exact E. apply (PO _ _ H).
Qed.

Lemma pend_ok_put_absent_none : forall p r, pend_ok p -> pend_ok (p_put_absent p r None).
Proof.
  intros p r PO. unfold p_put_absent. destruct (p_get p r); [exact PO|].
  apply pend_ok_put_none. exact PO.
Qed.

Lemma pend_ok_put_tree : forall p t, pend_ok p -> ordered t -> sized t ->
  pend_ok (p_put p (XH (thash t)) (Some t)).
Proof.
  intros p t PO HO HS x t' H. destruct (xroot_eqb x (XH (thash t))) eqn:E.
  - apply xroot_eqb_eq in E. subst x. rewrite p_get_put_same in H. injection H as <-. auto.
  - rewrite p_get_put_other in H by exact E. apply (PO _ _ H).
Qed.
