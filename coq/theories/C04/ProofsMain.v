(** C04 — the main theorems. *)
From Coq Require Import List ZArith NArith Bool Lia Arith.
From C33 Require Import C01.Keys C01.KeysFacts C01.Model C01.Spec C01.Store C01.Inv
  C01.Proofs C01.ProofsStore C04.Model C04.Proofs C04.ProofsOps.
Import ListNotations.
Open Scope Z_scope.

(** ** 1. pending updates and rollbacks are invisible at committed roots *)

Lemma load_x_same : forall s s' r,
  s_db s' = s_db s -> s_roots s' = s_roots s -> s_pfx s' = s_pfx s -> load_x s' r = load_x s r.
Proof.
  intros s s' r D R P. unfold load_x, is_root. rewrite D, R, P. reflexivity.
Qed.

(** table-only operations (and a restart) neither add nor remove a resolvable root *)
Theorem table_only_frame : forall s ops r o,
  inv s -> forallb table_only ops = true ->
  (committed (run s ops) r o <-> committed s r o) /\
  (committed (restart (run s ops)) r o <-> committed s r o).
Proof.
  intros s ops r o I H. destruct (table_only_run_db ops s H) as [D R].
  destruct (run_inv_grows ops s I) as [_ [_ [_ P]]].
  assert (E : load_x (run s ops) r = load_x s r) by (apply load_x_same; auto).
  unfold committed. split.
  - rewrite E. tauto.
  - change (load_x (restart (run s ops)) r) with (load_x (run s ops) r). rewrite E. tauto.
Qed.

Theorem pending_invisible : forall s r o ops,
  inv s -> committed s r o -> forallb table_only ops = true ->
  s_db (run s ops) = s_db s /\
  forall k, read (run s ops) r k = read s r k /\
            read (restart (run s ops)) r k = read s r k /\
            read (restart s) r k = read s r k.
Proof.
  intros s r o ops I C H. split; [apply table_only_run_db; exact H|].
  intros k. destruct (committed_forever s r o ops I C) as [_ [_ [R1 R2]]].
  rewrite R1, R2. rewrite (read_committed s r o k I C).
  rewrite (read_committed (restart s) r o k (restart_inv s I) C). auto.
Qed.

(** ** 2. an acknowledged commit makes exactly the computed content readable *)

Lemma in_outs_split : forall ops s o x, In (o, x) (combine ops (outs s ops)) ->
  exists a b, ops = a ++ o :: b /\ fst (step (run s a) o) = x.
Proof.
  induction ops as [|o0 ops IH]; intros s o x H; simpl in H; [contradiction|].
  destruct H as [H|H].
  - injection H as <- <-. exists [], ops. auto.
  - destruct (IH _ _ _ H) as [a [b [E1 E2]]]. exists (o0 :: a), b. simpl. subst ops. auto.
Qed.

Definition no_marker_on (r : xroot) (ops : list op) : bool :=
  forallb (fun o => negb (empty_memset_on r o)) ops.

Lemma acked_commit : forall ops s r oc,
  inv s -> target r oc -> marker_safe r oc s -> no_marker_on r ops = true ->
  In (OCommit r, RRoot r) (combine ops (outs s ops)) ->
  inv (run s ops) /\ committed (run s ops) r oc.
Proof.
  intros ops s r oc I T M G H.
  destruct (in_outs_split _ _ _ _ H) as [a [b [E1 E2]]]. subst ops.
  unfold no_marker_on in G. rewrite forallb_app in G. apply andb_prop in G. destruct G as [Ga _].
  destruct (run_inv_grows a s I) as [Ia _].
  pose proof (marker_safe_run a s r oc I T M Ga) as Ma.
  pose proof (commit_ack _ _ _ _ Ia T Ma E2) as C.
  rewrite run_app. simpl.
  destruct (committed_forever _ r oc b (step_inv _ (OCommit r) Ia) C) as [I' [C' _]]. auto.
Qed.

(** The guard: no empty MemSet on [r] after [r] was rolled back or the store was restarted
    (then nothing waits under [r] any more and the shortcut leaves a marker for a root
    that may not exist).  Implied by [still_pending] and by [no_marker_on]. *)
Theorem commit_exact_general : forall s p o kvs r s1 ops x s2,
  inv s -> committed s p o ->
  mem_set s p kvs = (RRoot r, s1) ->
  no_marker_after_discard r ops = true ->
  step (run s1 ops) (OCommit r) = (RRoot x, s2) ->
  exists oc, o_elements oc = apply_writes (o_elements o) kvs /\ committed s2 r oc /\
    forall later k,
      read (run s2 later) r k = sget (apply_writes (o_elements o) kvs) k /\
      read (restart (run s2 later)) r k = sget (apply_writes (o_elements o) kvs) k.
Proof.
  intros s p o kvs r s1 ops x s2 I C HM G HC.
  destruct (mem_set_spec _ _ _ _ _ _ I C HM) as [oc [T [HE [M [A _]]]]].
  assert (I1 : inv s1).
  { pose proof (step_inv s (OMemSet p kvs) I) as X. cbn [step] in X. rewrite HM in X. exact X. }
  destruct (run_inv_grows ops s1 I1) as [I2 _].
  pose proof (marker_safe_run_general ops s1 r oc I1 T M A G) as M2.
  assert (E : fst (step (run s1 ops) (OCommit r)) = RRoot x) by (rewrite HC; reflexivity).
  pose proof (commit_ack _ _ _ _ I2 T M2 E) as C2. rewrite HC in C2. simpl in C2.
  assert (I3 : inv s2).
  { pose proof (step_inv _ (OCommit r) I2) as X. rewrite HC in X. exact X. }
  exists oc. split; [exact HE|]. split; [exact C2|].
  intros later k. destruct (committed_forever s2 r oc later I3 C2) as [_ [_ [R1 R2]]].
  rewrite R1, R2, HE. auto.
Qed.

(** the update is still pending when it is committed: whatever else happens in between
    (empty MemSets on its root included), the acknowledged Commit makes its content readable *)
Theorem commit_exact : forall s p o kvs r s1 ops x s2,
  inv s -> committed s p o ->
  mem_set s p kvs = (RRoot r, s1) ->
  still_pending r ops = true ->
  step (run s1 ops) (OCommit r) = (RRoot x, s2) ->
  exists oc, o_elements oc = apply_writes (o_elements o) kvs /\ committed s2 r oc /\
    forall later k,
      read (run s2 later) r k = sget (apply_writes (o_elements o) kvs) k /\
      read (restart (run s2 later)) r k = sget (apply_writes (o_elements o) kvs) k.
Proof.
  intros s p o kvs r s1 ops x s2 I C HM G HC.
  eapply commit_exact_general; eauto using still_pending_general.
Qed.

Theorem commit_exact_guards : forall r ops,
  (still_pending r ops = true -> no_marker_after_discard r ops = true) /\
  (no_marker_on r ops = true -> no_marker_after_discard r ops = true).
Proof. intros r ops. split; [apply still_pending_general|apply no_marker_general]. Qed.

(** Why a guard remains: once the update of [r] has been rolled back, an empty MemSet on [r]
    is a NEW update of a root the store does not know; it is accepted without looking at the
    database and its Commit is acknowledged.  (The specification has no obligation for an
    update of an unknown parent; this is not the pending update of the first MemSet.) *)
Definition commit_exact_unguarded : Prop := forall s p o kvs r s1 ops x s2 k,
  inv s -> committed s p o ->
  mem_set s p kvs = (RRoot r, s1) ->
  step (run s1 ops) (OCommit r) = (RRoot x, s2) ->
  read s2 r k = sget (apply_writes (o_elements o) kvs) k.

Definition wk : bytes := [107%N; 49%N].      (* "k1" *)
Definition wv : bytes := [118%N; 49%N].      (* "v1" *)
Definition wroot : xroot := XH (HLeaf wk wv).

Theorem commit_exact_unguarded_false : ~ commit_exact_unguarded.
Proof.
  intros F.
  specialize (F (st0 false) XNil None [(wk, wv)] wroot
                (snd (mem_set (st0 false) XNil [(wk, wv)]))
                [ORollback wroot; OMemSet wroot []] wroot
                (snd (step (run (snd (mem_set (st0 false) XNil [(wk, wv)])) [ORollback wroot; OMemSet wroot []]) (OCommit wroot)))
                wk (inv_st0 false) eq_refl eq_refl eq_refl).
  vm_compute in F. discriminate.
Qed.

(** the history of the former finding 1 (MemSet, empty MemSet on the result, Commit) now reads
    what the first MemSet computed *)
Lemma former_witness_exact :
  let s1 := snd (mem_set (st0 false) XNil [(wk, wv)]) in
  let s2 := snd (step (run s1 [OMemSet wroot []]) (OCommit wroot)) in
  fst (step (run s1 [OMemSet wroot []]) (OCommit wroot)) = RRoot wroot /\
  read s2 wroot wk = Some wv /\ read (restart s2) wroot wk = Some wv.
Proof. vm_compute. auto. Qed.

(** ** 3. forks of one parent do not disturb each other *)

(** (which fork, commit or rollback) *)
Definition act_op (r1 r2 : xroot) (a : bool * bool) : op :=
  let r := if fst a then r1 else r2 in
  if snd a then OCommit r else ORollback r.

Lemma acts_no_marker : forall r r1 r2 acts, no_marker_on r (map (act_op r1 r2) acts) = true.
Proof.
  intros r r1 r2 acts. induction acts as [|[w c] acts IH]; simpl; [reflexivity|].
  unfold act_op at 1. simpl. destruct c; simpl; exact IH.
Qed.

Theorem forks_independent : forall s p o kvs1 kvs2 r1 r2 s1 s2 acts,
  inv s -> committed s p o ->
  mem_set s p kvs1 = (RRoot r1, s1) ->
  mem_set s1 p kvs2 = (RRoot r2, s2) ->
  let ops := map (act_op r1 r2) acts in
  let s3 := run s2 ops in
  (In (OCommit r1, RRoot r1) (combine ops (outs s2 ops)) ->
     forall k, read s3 r1 k = sget (apply_writes (o_elements o) kvs1) k /\
               read (restart s3) r1 k = sget (apply_writes (o_elements o) kvs1) k) /\
  (In (OCommit r2, RRoot r2) (combine ops (outs s2 ops)) ->
     forall k, read s3 r2 k = sget (apply_writes (o_elements o) kvs2) k /\
               read (restart s3) r2 k = sget (apply_writes (o_elements o) kvs2) k) /\
  (forall k, read s3 p k = sget (o_elements o) k /\ read (restart s3) p k = sget (o_elements o) k).
Proof.
  intros s p o kvs1 kvs2 r1 r2 s1 s2 acts I C H1 H2 ops s3.
  assert (I1 : inv s1).
  { pose proof (step_inv s (OMemSet p kvs1) I) as X. cbn [step] in X. rewrite H1 in X. exact X. }
  assert (G1 : grows s s1).
  { pose proof (step_grows s (OMemSet p kvs1) I) as X. cbn [step] in X. rewrite H1 in X. exact X. }
  assert (C1 : committed s1 p o) by (apply (committed_grows s); auto).
  assert (I2 : inv s2).
  { pose proof (step_inv s1 (OMemSet p kvs2) I1) as X. cbn [step] in X. rewrite H2 in X. exact X. }
  assert (G2 : grows s1 s2).
  { pose proof (step_grows s1 (OMemSet p kvs2) I1) as X. cbn [step] in X. rewrite H2 in X. exact X. }
  assert (C2 : committed s2 p o) by (apply (committed_grows s1); auto).
  destruct (mem_set_spec _ _ _ _ _ _ I C H1) as [oc1 [T1 [E1 [M1 [A1 _]]]]].
  destruct (mem_set_spec _ _ _ _ _ _ I1 C1 H2) as [oc2 [T2 [E2 [M2 _]]]].
  assert (M1' : marker_safe r1 oc1 s2).
  { pose proof (marker_safe_step s1 r1 oc1 (OMemSet p kvs2) I1 T1 M1) as X.
    cbn [step] in X. rewrite H2 in X. apply X. right. exact A1. }
  split; [|split].
  - intros HIn. destruct (acked_commit ops s2 r1 oc1 I2 T1 M1' (acts_no_marker _ _ _ _) HIn) as [I3 C3].
    intros k. rewrite <- E1. split; apply read_committed; auto using restart_inv.
  - intros HIn. destruct (acked_commit ops s2 r2 oc2 I2 T2 M2 (acts_no_marker _ _ _ _) HIn) as [I3 C3].
    intros k. rewrite <- E2. split; apply read_committed; auto using restart_inv.
  - intros k. destruct (committed_forever s2 p o ops I2 C2) as [_ [_ [R1 R2]]]. auto.
Qed.

(** ** 4. interleavings at operation granularity are sequential histories *)

Fixpoint upd {A} (i : nat) (x : A) (l : list A) : list A :=
  match l, i with
  | [], _ => []
  | _ :: tl, O => x :: tl
  | y :: tl, S j => y :: upd j x tl
  end.

Lemma nth_upd_same : forall {A} (l : list A) i x d, (i < length l)%nat -> nth i (upd i x l) d = x.
Proof.
  induction l as [|y l IH]; intros i x d H; simpl in H; [lia|].
  destruct i; simpl; [reflexivity|]. apply IH. lia.
Qed.

Lemma nth_upd_other : forall {A} (l : list A) i j x d, i <> j -> nth j (upd i x l) d = nth j l d.
Proof.
  induction l as [|y l IH]; intros i j x d H; simpl; [destruct i; reflexivity|].
  destruct i, j; simpl; try reflexivity; [contradiction|]. apply IH. congruence.
Qed.

(** an event: which client, which operation, which reply *)
Definition event := (nat * op * out)%type.
Definition ev_thread (e : event) : nat := fst (fst e).
Definition ev_op (e : event) : op := snd (fst e).
Definition ev_out (e : event) : out := snd e.

(** [rem]: what each client still has to send.  [sched]: which client's next
    request the store serves next; the request is served ATOMICALLY (this is the
    assumption: the Go store serves every request in its own goroutine and an
    operation is several steps on the table and the database). *)
Fixpoint exec (s : st) (rem : list (list op)) (sched : list nat) : st * list (list op) * list event :=
  match sched with
  | [] => (s, rem, [])
  | i :: tl =>
      match nth i rem [] with
      | [] => exec s rem tl
      | o :: more =>
          let '(sf, rf, h) := exec (snd (step s o)) (upd i more rem) tl in
          (sf, rf, (i, o, fst (step s o)) :: h)
      end
  end.

Definition proj (i : nat) (h : list event) : list op :=
  map ev_op (filter (fun e => Nat.eqb (ev_thread e) i) h).

Theorem ops_linearizable_model : forall sched s rem sf rf h,
  exec s rem sched = (sf, rf, h) ->
  sf = run s (map ev_op h) /\
  map ev_out h = outs s (map ev_op h) /\
  forall i, proj i h ++ nth i rf [] = nth i rem [].
Proof.
  induction sched as [|i sched IH]; intros s rem sf rf h H; simpl in H.
  - injection H as <- <- <-. simpl. auto.
  - destruct (nth i rem []) as [|o more] eqn:E.
    + apply IH. exact H.
    + destruct (exec (snd (step s o)) (upd i more rem) sched) as [[sf' rf'] h'] eqn:X.
      injection H as <- <- <-.
      destruct (IH _ _ _ _ _ X) as [A [B Cc]].
      split; [simpl; exact A|]. split; [simpl; f_equal; exact B|].
      intros j. unfold proj. simpl. unfold ev_thread at 1. simpl.
      destruct (Nat.eqb i j) eqn:EJ.
      * apply Nat.eqb_eq in EJ. subst j. simpl. fold (proj i h'). rewrite (Cc i).
        rewrite nth_upd_same; [rewrite E; reflexivity|].
        destruct (Nat.lt_ge_cases i (length rem)) as [L|L]; [exact L|].
        rewrite nth_overflow in E by exact L. discriminate.
      * apply Nat.eqb_neq in EJ. fold (proj j h'). rewrite (Cc j).
        apply nth_upd_other. exact EJ.
Qed.
