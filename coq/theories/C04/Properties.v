(** C04 — Pending state updates never leak into committed state: theorem statements. *)
From Coq Require Import List ZArith NArith Bool.
From C33 Require Import C01.Keys C01.Model C01.Spec C01.Store C01.Inv
  C04.Model C04.Proofs C04.ProofsOps C04.ProofsMain C04.ProofsExamples.
Import ListNotations.

(** every state the store can reach from an empty database satisfies the invariant the
    theorems below assume *)
Theorem C04_reachable_inv : forall pfx ops, inv (run (st0 pfx) ops).
Proof. exact reachable_inv. Qed.
Print Assumptions C04_reachable_inv.

(** a read at a root that resolves in the database returns that root's content, whatever the
    table of pending trees holds *)
Theorem C04_read_committed : forall s r o k,
  inv s -> committed s r o -> read s r k = sget (o_elements o) k.
Proof. exact read_committed. Qed.
Print Assumptions C04_read_committed.

(** a committed root stays committed with the same content under ANY later operations,
    before and after a restart *)
Theorem C04_committed_forever : forall s r o ops,
  inv s -> committed s r o ->
  inv (run s ops) /\ committed (run s ops) r o /\
  (forall k, read (run s ops) r k = sget (o_elements o) k) /\
  (forall k, read (restart (run s ops)) r k = sget (o_elements o) k).
Proof. exact committed_forever. Qed.
Print Assumptions C04_committed_forever.

(** MemSet, Rollback (and Get) leave the database untouched and every read at every committed
    root unchanged, before and after a restart *)
Theorem C04_pending_invisible : forall s r o ops,
  inv s -> committed s r o -> forallb table_only ops = true ->
  s_db (run s ops) = s_db s /\
  forall k, read (run s ops) r k = read s r k /\
            read (restart (run s ops)) r k = read s r k /\
            read (restart s) r k = read s r k.
Proof. exact pending_invisible. Qed.
Print Assumptions C04_pending_invisible.

(** ... and they neither add nor remove a committed root: the set of roots that resolve, with
    their contents, is the same before and after (and after a restart) *)
Theorem C04_table_only_frame : forall s ops r o,
  inv s -> forallb table_only ops = true ->
  (committed (run s ops) r o <-> committed s r o) /\
  (committed (restart (run s ops)) r o <-> committed s r o).
Proof. exact table_only_frame. Qed.
Print Assumptions C04_table_only_frame.

(** an update that is still pending when it is committed (no Rollback of its root, no restart
    in between): whatever else happens between MemSet and its acknowledged Commit - other
    updates, commits and rollbacks, reads, EMPTY MemSets on the root itself (former finding
    C04-1, fixed in chain33: the shortcut keeps what waits under the hash) - reads at the root
    return the content MemSet computed, for ever after and after restarts *)
Theorem C04_commit_exact : forall s p o kvs r s1 ops x s2,
  inv s -> committed s p o ->
  mem_set s p kvs = (RRoot r, s1) ->
  still_pending r ops = true ->
  step (run s1 ops) (OCommit r) = (RRoot x, s2) ->
  exists oc, o_elements oc = apply_writes (o_elements o) kvs /\ committed s2 r oc /\
    forall later k,
      read (run s2 later) r k = sget (apply_writes (o_elements o) kvs) k /\
      read (restart (run s2 later)) r k = sget (apply_writes (o_elements o) kvs) k.
Proof. exact commit_exact. Qed.
Print Assumptions C04_commit_exact.

(** the same under the weakest guard: the root may be rolled back / lost in a restart and
    computed again, as long as no empty MemSet is issued on it AFTER it was discarded *)
Theorem C04_commit_exact_general : forall s p o kvs r s1 ops x s2,
  inv s -> committed s p o ->
  mem_set s p kvs = (RRoot r, s1) ->
  no_marker_after_discard r ops = true ->
  step (run s1 ops) (OCommit r) = (RRoot x, s2) ->
  exists oc, o_elements oc = apply_writes (o_elements o) kvs /\ committed s2 r oc /\
    forall later k,
      read (run s2 later) r k = sget (apply_writes (o_elements o) kvs) k /\
      read (restart (run s2 later)) r k = sget (apply_writes (o_elements o) kvs) k.
Proof. exact commit_exact_general. Qed.
Print Assumptions C04_commit_exact_general.

(** ... which is implied by "still pending" and by the guard of the former partial theorem
    (no empty MemSet on the root at all) *)
Theorem C04_commit_exact_guards : forall r ops,
  (still_pending r ops = true -> no_marker_after_discard r ops = true) /\
  (no_marker_on r ops = true -> no_marker_after_discard r ops = true).
Proof. exact commit_exact_guards. Qed.
Print Assumptions C04_commit_exact_guards.

(** the "still pending" hypothesis cannot be dropped altogether: after Rollback r an empty
    MemSet on r is a new update of a root the store does not know; the shortcut accepts it
    without looking at the database and its Commit is acknowledged (not a pending update of
    known content: the specification has no obligation there) *)
Theorem C04_commit_exact_unguarded_false : ~ commit_exact_unguarded.
Proof. exact commit_exact_unguarded_false. Qed.
Print Assumptions C04_commit_exact_unguarded_false.

(** two pending updates of one parent, then commits / rollbacks of the two in any order and
    number: a fork whose Commit was acknowledged reads as computed, the parent reads as before *)
Theorem C04_forks_independent : forall s p o kvs1 kvs2 r1 r2 s1 s2 acts,
  inv s -> committed s p o ->
  mem_set s p kvs1 = (RRoot r1, s1) ->
  mem_set s1 p kvs2 = (RRoot r2, s2) ->
  let ops := map (act_op r1 r2) acts in
  let s3 := run s2 ops in
  (In (OCommit r1, RRoot r1) (combine ops (outs s2 ops)) ->
     forall k, read s3 r1 k = sget (apply_writes (o_elements o) kvs1) k /\
               read (restart s3) r1 k = sget (apply_writes (o_elements o) kvs1) k) /\
  (In (OCommit r2, RRoot r2) (combine ops (outs s2 ops)) ->
     forall k, read s3 r2 k = sget (apply_writes (o_elements o) kvs2) k /\
               read (restart s3) r2 k = sget (apply_writes (o_elements o) kvs2) k) /\
  (forall k, read s3 p k = sget (o_elements o) k /\ read (restart s3) p k = sget (o_elements o) k).
Proof. exact forks_independent. Qed.
Print Assumptions C04_forks_independent.

(** any schedule of clients whose requests are served one at a time (operation granularity —
    the assumed atomicity) gives the final state and the replies of ONE sequential history that
    keeps every client's own order *)
Theorem C04_ops_linearizable_model : forall sched s rem sf rf h,
  exec s rem sched = (sf, rf, h) ->
  sf = run s (map ev_op h) /\
  map ev_out h = outs s (map ev_op h) /\
  forall i, proj i h ++ nth i rf [] = nth i rem [].
Proof. exact ops_linearizable_model. Qed.
Print Assumptions C04_ops_linearizable_model.
