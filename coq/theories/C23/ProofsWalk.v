(** C23 — list facts and the properties of the filtered walk. *)
From Coq Require Import List ZArith NArith Bool Lia Permutation.
From C33 Require Import C23.Model.
Import ListNotations.
Open Scope Z_scope.

(** ** order-preserving sub-lists *)
Inductive sublist {A : Type} : list A -> list A -> Prop :=
| sl_nil : forall l, sublist [] l
| sl_cons : forall x a b, sublist a b -> sublist (x :: a) (x :: b)
| sl_skip : forall x a b, sublist a b -> sublist a (x :: b).

Lemma sublist_refl {A} (l : list A) : sublist l l.
Proof. induction l; constructor; auto. Qed.

Lemma sublist_trans {A} (a b c : list A) : sublist a b -> sublist b c -> sublist a c.
Proof.
  intros Hab Hbc. revert a Hab. induction Hbc as [l|x b c Hbc IH|x b c Hbc IH]; intros a Hab.
  - inversion Hab; subst. constructor.
  - inversion Hab; subst.
    + constructor.
    + constructor. apply IH. assumption.
    + apply sl_skip. apply IH. assumption.
  - apply sl_skip. apply IH. assumption.
Qed.

Lemma sublist_In {A} (a b : list A) x : sublist a b -> In x a -> In x b.
Proof.
  induction 1 as [l|y a b H IH|y a b H IH]; simpl; intros Hx.
  - contradiction.
  - destruct Hx; auto.
  - auto.
Qed.

Lemma sublist_map {A B} (f : A -> B) a b : sublist a b -> sublist (map f a) (map f b).
Proof. induction 1; simpl; constructor; auto. Qed.

Lemma sublist_filter {A} (p : A -> bool) l : sublist (filter p l) l.
Proof. induction l as [|x l IH]; simpl; [constructor|]. destruct (p x); constructor; auto. Qed.

Lemma sublist_filter_mono {A} (p : A -> bool) a b : sublist a b -> sublist (filter p a) (filter p b).
Proof.
  induction 1 as [l|x a b H IH|x a b H IH]; simpl.
  - constructor.
  - destruct (p x); [constructor|]; auto.
  - destruct (p x); [apply sl_skip|]; auto.
Qed.

Lemma sublist_length {A} (a b : list A) : sublist a b -> (length a <= length b)%nat.
Proof. induction 1; simpl; lia. Qed.

Lemma sublist_NoDup {A} (a b : list A) : sublist a b -> NoDup b -> NoDup a.
Proof.
  induction 1 as [l|x a b H IH|x a b H IH]; intros Hn.
  - constructor.
  - inversion Hn; subst. constructor; auto. intro Hx. eapply sublist_In in Hx; eauto.
  - inversion Hn; subst. auto.
Qed.

(** ** NoDup helpers *)
Lemma NoDup_app_intro {A} (a b : list A) :
  NoDup a -> NoDup b -> (forall x, In x a -> In x b -> False) -> NoDup (a ++ b).
Proof.
  induction a as [|x a IH]; simpl; intros Ha Hb Hd; [assumption|].
  inversion Ha; subst. constructor.
  - rewrite in_app_iff. intros [H|H]; [contradiction|]. eapply Hd; eauto.
  - apply IH; auto. intros y Hy1 Hy2. eapply Hd; eauto.
Qed.

Lemma NoDup_filter' {A} (p : A -> bool) l : NoDup l -> NoDup (filter p l).
Proof. intros H. eapply sublist_NoDup; [apply sublist_filter|assumption]. Qed.

Lemma NoDup_flat_map {A B} (f : A -> list B) (l : list A) :
  NoDup l -> (forall a, In a l -> NoDup (f a)) ->
  (forall a b x, In a l -> In b l -> a <> b -> In x (f a) -> In x (f b) -> False) ->
  NoDup (flat_map f l).
Proof.
  induction l as [|a l IH]; simpl; intros Hn Hf Hd; [constructor|].
  inversion Hn; subst. apply NoDup_app_intro.
  - apply Hf. auto.
  - apply IH; auto. intros; eapply Hd; eauto.
  - intros x Hx1 Hx2. apply in_flat_map in Hx2 as (b & Hb & Hxb).
    eapply (Hd a b x); eauto. intros ->. contradiction.
Qed.

(** a function that is injective on a list maps duplicate-free sub-collections
    to duplicate-free lists *)
Lemma NoDup_map_inj_on {A B} (f : A -> B) (big l : list A) :
  NoDup (map f big) -> NoDup l -> incl l big -> NoDup (map f l).
Proof.
  intros Hbig. assert (Hinj : forall a b, In a big -> In b big -> f a = f b -> a = b).
  { clear l. induction big as [|x big IH]; simpl; intros a b Ha Hb E; [contradiction|].
    inversion Hbig; subst. destruct Ha as [<-|Ha], Hb as [<-|Hb]; auto.
    - exfalso. apply H1. rewrite E. apply in_map. assumption.
    - exfalso. apply H1. rewrite <- E. apply in_map. assumption. }
  induction l as [|x l IH]; simpl; intros Hn Hi; [constructor|].
  inversion Hn; subst. constructor.
  - intros Hx. apply in_map_iff in Hx as (y & E & Hy).
    assert (y = x). { apply Hinj; auto. - apply Hi. right. assumption. - apply Hi. left. reflexivity. }
    subst. contradiction.
  - apply IH; auto. intros y Hy. apply Hi. right. assumption.
Qed.

Lemma filter_length_id {A} (p : A -> bool) l : length (filter p l) = length l -> filter p l = l.
Proof.
  induction l as [|x l IH]; simpl; intros E; [reflexivity|].
  destruct (p x); simpl in E.
  - f_equal. apply IH. lia.
  - pose proof (sublist_length _ _ (sublist_filter p l)). lia.
Qed.

Lemma filter_partition_length {A} (p : A -> bool) l :
  (length (filter p l) + length (filter (fun x => negb (p x)) l) = length l)%nat.
Proof. induction l as [|x l IH]; simpl; [reflexivity|]. destruct (p x); simpl; lia. Qed.

Lemma mem_n_In x l : mem_n x l = true <-> In x l.
Proof.
  unfold mem_n. rewrite existsb_exists. split.
  - intros (y & Hy & E). apply N.eqb_eq in E. subst. assumption.
  - intros H. exists x. split; [assumption|apply N.eqb_refl].
Qed.

(** ** the walk *)
Section Walk.
  Variables (e : env) (height blocktime count : Z) (excl : list N) (isAll : bool).

  Lemma walk_sublist : forall pool n,
    sublist (walk e height blocktime count excl isAll pool n) (map i_tx pool).
  Proof.
    induction pool as [|it tl IH]; intros n; simpl; [constructor|].
    destruct (mem_n (t_id (i_tx it)) excl); [apply sl_skip; apply IH|].
    destruct (is_expired e it height blocktime && negb isAll); [apply sl_skip; apply IH|].
    apply sl_cons. destruct ((count >? 0) && (n + 1 =? count)); [constructor|apply IH].
  Qed.

  Lemma walk_length : forall pool n,
    0 < count -> 0 <= n < count ->
    Z.of_nat (length (walk e height blocktime count excl isAll pool n)) <= count - n.
  Proof.
    induction pool as [|it tl IH]; intros n Hc Hn; simpl; [lia|].
    destruct (mem_n (t_id (i_tx it)) excl); [apply IH; lia|].
    destruct (is_expired e it height blocktime && negb isAll); [apply IH; lia|].
    destruct (Z.gtb_spec count 0) as [_|]; [|lia]. simpl.
    destruct (Z.eqb_spec (n + 1) count) as [E|E]; simpl length.
    - lia.
    - specialize (IH (n + 1) Hc). lia.
  Qed.

  Lemma walk_items : forall pool n t,
    In t (walk e height blocktime count excl isAll pool n) ->
    exists it, In it pool /\ i_tx it = t /\ mem_n (t_id t) excl = false
               /\ (isAll = false -> is_expired e it height blocktime = false).
  Proof.
    induction pool as [|it tl IH]; intros n t; simpl; [contradiction|].
    destruct (mem_n (t_id (i_tx it)) excl) eqn:Ex.
    { intros H. apply IH in H as (it' & ? & ? & ? & ?). exists it'. auto. }
    destruct (is_expired e it height blocktime && negb isAll) eqn:Ep.
    { intros H. apply IH in H as (it' & ? & ? & ? & ?). exists it'. auto. }
    intros [<-|H].
    - exists it. repeat split; auto. intros ->. rewrite andb_true_r in Ep. exact Ep.
    - destruct ((count >? 0) && (n + 1 =? count)); [contradiction|].
      apply IH in H as (it' & ? & ? & ? & ?). exists it'. auto.
  Qed.
End Walk.
