(** C23 — the properties of the list handed to block producers. *)
From Coq Require Import List ZArith NArith Bool Lia Permutation.
From C33 Require Import C23.Model C23.Spec C23.ProofsWalk C23.ProofsMap C23.ProofsRun.
Import ListNotations.
Open Scope Z_scope.

(** ** what the map built from [txs] contains *)
Lemma repr_entry m txs s nm n t :
  repr m txs -> aget N.eqb s m = Some nm -> aget Z.eqb n nm = Some t ->
  t_nonce t = n /\ In t txs /\ is_eth t = true /\ t_from t = s.
Proof.
  intros [_ Hr] Hs Hn. specialize (Hr s). unfold smap, nmap in *. rewrite Hs in Hr.
  destruct Hr as [_ Hg]. rewrite Hg in Hn. apply last_with_Some in Hn as [Hi Hp].
  unfold sel in Hp. apply andb_true_iff in Hp as [Hp Hp3]. apply andb_true_iff in Hp as [Hp1 Hp2].
  apply N.eqb_eq in Hp2. apply Z.eqb_eq in Hp3. auto.
Qed.

Lemma repr_keyed m txs s nm :
  repr m txs -> aget N.eqb s m = Some nm -> forall n t, aget Z.eqb n nm = Some t -> t_nonce t = n.
Proof. intros Hr Hs n t Hn. eapply repr_entry in Hn; eauto. tauto. Qed.

Section Runs.
  Variables (txs : list tx) (nonce_of : N -> Z).
  Let m := eth_map txs.

  Lemma sender_run_in s t :
    In t (sender_run m nonce_of s) -> In t txs /\ is_eth t = true /\ t_from t = s.
  Proof.
    unfold sender_run. destruct (aget N.eqb s m) as [nm|] eqn:E; [|contradiction].
    intros H. apply run_in in H as (n & Hn).
    eapply repr_entry in Hn; [|apply eth_map_repr|exact E]. tauto.
  Qed.

  Lemma sender_run_consec s :
    consecb (nonce_of s) (map t_nonce (sender_run m nonce_of s)) = true.
  Proof.
    unfold sender_run. destruct (aget N.eqb s m) as [nm|] eqn:E; [|reflexivity].
    apply run_consec. eapply repr_keyed; [apply eth_map_repr|exact E].
  Qed.

  Lemma sender_run_length s : (length (sender_run m nonce_of s) <= nm_len m s)%nat.
  Proof.
    unfold sender_run, nm_len. destruct (aget N.eqb s m) as [nm|]; [apply run_length|simpl; lia].
  Qed.

  Lemma nm_length_bound s nm : aget N.eqb s m = Some nm -> (length nm <= length txs)%nat.
  Proof.
    intros E. apply msize_aget in E. pose proof (msize_eth_map txs).
    pose proof (sublist_length _ _ (sublist_filter is_eth txs)). unfold m in *. lia.
  Qed.

  Lemma sender_run_nodup s :
    in64 (nonce_of s) = true -> Z.of_nat (length txs) < two64 ->
    NoDup (sender_run m nonce_of s).
  Proof.
    intros Hc Hl. unfold sender_run. destruct (aget N.eqb s m) as [nm|] eqn:E; [|constructor].
    apply run_nodup; auto.
    - eapply repr_keyed; [apply eth_map_repr|exact E].
    - pose proof (nm_length_bound _ _ E). lia.
  Qed.

  (** the run stops only at a nonce no walked eth transaction of the sender has *)
  Lemma sender_run_maximal s :
    in64 (nonce_of s) = true -> Z.of_nat (length txs) < two64 ->
    forall t, In t txs -> is_eth t = true -> t_from t = s ->
      t_nonce t <> wrap64 (nonce_of s + Z.of_nat (length (sender_run m nonce_of s))).
  Proof.
    intros Hc Hl t Ht Het Hfr Hn.
    pose proof (eth_map_repr txs) as [Hk Hr]. specialize (Hr s). fold m in Hr.
    unfold sender_run in Hn. unfold smap, nmap in *.
    destruct (aget N.eqb s m) as [nm|] eqn:E.
    - destruct Hr as [Hnk Hg].
      assert (Hkeyed : forall n t, aget Z.eqb n nm = Some t -> t_nonce t = n).
      { eapply repr_keyed; [apply eth_map_repr|exact E]. }
      assert (Hmiss : forall f c, run nm c (S f) = run nm c f ->
                aget Z.eqb (step_n (length (run nm c f)) c) nm = None).
      { induction f as [|f IH]; intros c Hrun.
        - simpl in *. destruct (aget Z.eqb c nm); [discriminate|reflexivity].
        - cbn [run] in Hrun. cbn [run]. destruct (aget Z.eqb c nm) eqn:Ec.
          + injection Hrun as Hrun. cbn [length step_n]. apply IH. exact Hrun.
          + simpl. exact Ec. }
      pose proof (nm_length_bound _ _ E) as Hb.
      assert (Hfe : run nm (nonce_of s) (S (length nm)) = run nm (nonce_of s) (length nm)).
      { replace (S (length nm)) with (length nm + 1)%nat by lia.
        apply run_fuel_enough; auto. lia. }
      apply Hmiss in Hfe. rewrite step_n_form in Hfe by exact Hc.
      rewrite Hg in Hfe. eapply last_with_None in Hfe; [|exact Ht].
      unfold sel in Hfe. rewrite Het, Hfr, N.eqb_refl, Hn, Z.eqb_refl in Hfe. discriminate.
    - specialize (Hr (t_nonce t)). eapply last_with_None in Hr; [|exact Ht].
      unfold sel in Hr. rewrite Het, Hfr, N.eqb_refl, Z.eqb_refl in Hr. discriminate.
  Qed.
End Runs.

(** ** sortEthSignTyTx *)
Lemma fold_no_eth txs : forall m0,
  (forall t, In t txs -> is_eth t = false) ->
  fold_left (fun m t => if is_eth t then add_eth m t else m) txs m0 = m0.
Proof.
  induction txs as [|t txs IH]; intros m0 H; simpl; [reflexivity|].
  rewrite (H t) by (left; reflexivity). apply IH. intros x Hx. apply H. right. exact Hx.
Qed.

Lemma flat_map_nil {A B} (f : A -> list B) l : (forall a, f a = []) -> flat_map f l = [].
Proof. intros H. induction l as [|a l IH]; simpl; [reflexivity|]. rewrite H, IH. reflexivity. Qed.

Lemma sort_eth_eq nonce_of perm txs :
  sort_eth nonce_of perm txs = non_eth txs ++ flat_map (sender_run (eth_map txs) nonce_of) perm.
Proof.
  unfold sort_eth. destruct (Nat.eqb_spec (length (non_eth txs)) (length txs)) as [E|E]; [|reflexivity].
  unfold non_eth in *. apply filter_length_id in E.
  assert (Hall : forall t, In t txs -> is_eth t = false).
  { intros t Ht. rewrite <- E in Ht. apply filter_In in Ht as [_ Hp].
    destruct (is_eth t); [discriminate|reflexivity]. }
  unfold eth_map. rewrite (fold_no_eth txs [] Hall). rewrite flat_map_nil by reflexivity.
  rewrite app_nil_r. symmetry. exact E.
Qed.

Lemma filter_all {A} (p : A -> bool) l : (forall x, In x l -> p x = true) -> filter p l = l.
Proof.
  induction l as [|x l IH]; simpl; intros H; [reflexivity|].
  rewrite (H x) by (left; reflexivity). f_equal. apply IH. intros y Hy. apply H. right. exact Hy.
Qed.

Lemma filter_none {A} (p : A -> bool) l : (forall x, In x l -> p x = false) -> filter p l = [].
Proof.
  induction l as [|x l IH]; simpl; intros H; [reflexivity|].
  rewrite (H x) by (left; reflexivity). apply IH. intros y Hy. apply H. right. exact Hy.
Qed.

Section Sort.
  Variables (nonce_of : N -> Z) (perm : list N) (txs : list tx).
  Let m := eth_map txs.
  Let res := sort_eth nonce_of perm txs.

  Lemma sort_incl : incl res txs.
  Proof.
    unfold res. rewrite sort_eth_eq. intros t Ht. apply in_app_iff in Ht as [Ht|Ht].
    - apply filter_In in Ht. tauto.
    - apply in_flat_map in Ht as (s & _ & Ht). apply sender_run_in in Ht. tauto.
  Qed.

  Lemma sort_non_eth : non_eth res = non_eth txs.
  Proof.
    unfold res. rewrite sort_eth_eq. unfold non_eth at 1. rewrite filter_app.
    rewrite (filter_all _ (non_eth txs)).
    - rewrite filter_none; [apply app_nil_r|].
      intros t Ht. apply in_flat_map in Ht as (s & _ & Ht). apply sender_run_in in Ht.
      destruct Ht as (_ & -> & _). reflexivity.
    - intros t Ht. apply filter_In in Ht. tauto.
  Qed.

  Lemma eth_of_flat_map s : NoDup perm ->
    eth_of s (flat_map (sender_run m nonce_of) perm) =
    if in_dec N.eq_dec s perm then sender_run m nonce_of s else [].
  Proof.
    induction perm as [|a l IH]; intros Hn; [reflexivity|].
    inversion Hn as [|? ? Ha Hl]; subst. cbn [flat_map]. unfold eth_of at 1. rewrite filter_app.
    fold (eth_of s (flat_map (sender_run m nonce_of) l)). rewrite (IH Hl).
    destruct (N.eq_dec a s) as [->|Hne].
    - rewrite filter_all.
      + destruct (in_dec N.eq_dec s (s :: l)) as [_|Hc]; [|exfalso; apply Hc; left; reflexivity].
        destruct (in_dec N.eq_dec s l); [contradiction|apply app_nil_r].
      + intros t Ht. apply sender_run_in in Ht as (_ & -> & ->). rewrite N.eqb_refl. reflexivity.
    - rewrite filter_none.
      + cbn [app]. destruct (in_dec N.eq_dec s (a :: l)) as [Hi|Hi], (in_dec N.eq_dec s l) as [Hj|Hj];
          try reflexivity.
        * destruct Hi; [congruence|contradiction].
        * exfalso. apply Hi. right. exact Hj.
      + intros t Ht. apply sender_run_in in Ht as (_ & _ & ->).
        destruct (N.eqb_spec a s); [congruence|]. apply andb_false_r.
  Qed.

  Lemma sort_eth_of s : NoDup perm ->
    eth_of s res = if in_dec N.eq_dec s perm then sender_run m nonce_of s else [].
  Proof.
    intros Hn. unfold res. rewrite sort_eth_eq. unfold eth_of at 1. rewrite filter_app.
    rewrite filter_none.
    - simpl. apply eth_of_flat_map. exact Hn.
    - intros t Ht. apply filter_In in Ht as [_ Hp]. destruct (is_eth t); [discriminate|reflexivity].
  Qed.

  Lemma sort_consec s : NoDup perm -> consecb (nonce_of s) (map t_nonce (eth_of s res)) = true.
  Proof.
    intros Hn. rewrite sort_eth_of by exact Hn.
    destruct (in_dec N.eq_dec s perm); [apply sender_run_consec|reflexivity].
  Qed.

  Lemma length_flat_map {A B} (f : A -> list B) l :
    length (flat_map f l) = list_sum (map (fun a => length (f a)) l).
  Proof. induction l as [|a l IH]; simpl; [reflexivity|]. rewrite app_length, IH. reflexivity. Qed.

  Lemma list_sum_le {A} (f g : A -> nat) l :
    (forall a, (f a <= g a)%nat) -> (list_sum (map f l) <= list_sum (map g l))%nat.
  Proof. intros H. induction l as [|a l IH]; simpl; [lia|]. specialize (H a). lia. Qed.

  Lemma sort_length : NoDup perm -> (length res <= length txs)%nat.
  Proof.
    intros Hn. unfold res. rewrite sort_eth_eq, app_length, length_flat_map.
    pose proof (list_sum_le (fun a => length (sender_run m nonce_of a)) (nm_len m) perm
                  (sender_run_length txs nonce_of)) as H1.
    pose proof (sum_nm_len m perm Hn) as H2.
    pose proof (msize_eth_map txs) as H3.
    pose proof (filter_partition_length is_eth txs) as H4. unfold non_eth, m in *. lia.
  Qed.

  Lemma sort_nodup :
    NoDup txs -> NoDup perm -> (forall s, in64 (nonce_of s) = true) ->
    Z.of_nat (length txs) < two64 -> NoDup res.
  Proof.
    intros Ht Hn Hc Hl. unfold res. rewrite sort_eth_eq. apply NoDup_app_intro.
    - apply NoDup_filter'. exact Ht.
    - apply NoDup_flat_map; auto.
      + intros s _. apply sender_run_nodup; auto.
      + intros a b x _ _ Hab Ha Hb. apply sender_run_in in Ha as (_ & _ & Ha).
        apply sender_run_in in Hb as (_ & _ & Hb). congruence.
    - intros x Hx Hy. apply filter_In in Hx as [_ Hx].
      apply in_flat_map in Hy as (s & _ & Hy). apply sender_run_in in Hy as (_ & Hy & _).
      rewrite Hy in Hx. discriminate.
  Qed.
End Sort.

Lemma sort_perm nonce_of p1 p2 txs :
  Permutation p1 p2 -> Permutation (sort_eth nonce_of p1 txs) (sort_eth nonce_of p2 txs).
Proof.
  intros H. rewrite !sort_eth_eq. apply Permutation_app_head. apply Permutation_flat_map. exact H.
Qed.

(** ** filterTxList *)
Section Filter.
  Variables (e : env) (nonce_of : N -> Z) (perm : list N) (count : Z) (excl : list N)
            (isAll : bool) (pool : list item).
  Let W := filter_walk e count excl isAll pool.
  Let R := filter_tx_list e nonce_of perm count excl isAll pool.

  Lemma W_sublist : sublist W (map i_tx pool).
  Proof. apply walk_sublist. Qed.

  Lemma R_incl_W : incl R W.
  Proof.
    unfold R, filter_tx_list. fold W. destruct (sort_active e); [apply sort_incl|apply incl_refl].
  Qed.

  Lemma R_length_W : NoDup perm -> (length R <= length W)%nat.
  Proof.
    intros Hn. unfold R, filter_tx_list. fold W. destruct (sort_active e); [apply sort_length; exact Hn|lia].
  Qed.

  Lemma R_length : 0 < count -> NoDup perm -> Z.of_nat (length R) <= count.
  Proof.
    intros Hc Hn. pose proof (R_length_W Hn).
    pose proof (walk_length e (e_height e + 1) (e_blocktime e) count excl isAll pool 0 Hc ltac:(lia)).
    fold (filter_walk e count excl isAll pool) in H0. fold W in H0. lia.
  Qed.

  Lemma R_items : forall t, In t R ->
    exists it, In it pool /\ i_tx it = t /\ mem_n (t_id t) excl = false
               /\ (isAll = false -> is_expired e it (e_height e + 1) (e_blocktime e) = false).
  Proof. intros t Ht. apply R_incl_W in Ht. eapply walk_items. exact Ht. Qed.

  Lemma R_non_eth : non_eth R = non_eth W.
  Proof.
    unfold R, filter_tx_list. fold W. destruct (sort_active e); [apply sort_non_eth|reflexivity].
  Qed.

  Lemma R_non_eth_sublist : sublist (non_eth R) (map i_tx pool).
  Proof.
    rewrite R_non_eth. eapply sublist_trans; [apply sublist_filter|apply W_sublist].
  Qed.

  Lemma R_prefork_sublist : sort_active e = false -> sublist R (map i_tx pool).
  Proof. intros H. unfold R, filter_tx_list. rewrite H. apply W_sublist. Qed.

  Lemma R_eth_runs s : sort_active e = true -> NoDup perm ->
    consecb (nonce_of s) (map t_nonce (eth_of s R)) = true.
  Proof.
    intros Hs Hn. unfold R, filter_tx_list. rewrite Hs. apply sort_consec. exact Hn.
  Qed.

  Lemma W_nodup : NoDup (map (fun it => t_id (i_tx it)) pool) -> NoDup (map t_id W).
  Proof.
    intros H. rewrite <- map_map in H. eapply sublist_NoDup; [|exact H].
    apply sublist_map. apply W_sublist.
  Qed.

  Lemma W_length_pool : (length W <= length pool)%nat.
  Proof. pose proof (sublist_length _ _ W_sublist). rewrite map_length in H. exact H. Qed.

  Lemma R_nodup :
    NoDup (map (fun it => t_id (i_tx it)) pool) -> NoDup perm ->
    (forall s, in64 (nonce_of s) = true) -> Z.of_nat (length pool) < two64 ->
    NoDup (map t_id R).
  Proof.
    intros Hp Hn Hc Hl. pose proof (W_nodup Hp) as Hw.
    apply (NoDup_map_inj_on t_id W); [exact Hw| |apply R_incl_W].
    unfold R, filter_tx_list. fold W. destruct (sort_active e).
    - apply sort_nodup; auto.
      + apply NoDup_map_inv in Hw. exact Hw.
      + pose proof W_length_pool. lia.
    - apply NoDup_map_inv in Hw. exact Hw.
  Qed.

  (** with every sender visited, a sender's part of the result is exactly the
      run and the run is maximal *)
  Lemma R_eth_of_exact s : sort_active e = true -> Permutation perm (sender_keys W) ->
    eth_of s R = sender_run (eth_map W) nonce_of s.
  Proof.
    intros Hs Hp. assert (Hn : NoDup perm).
    { eapply Permutation_NoDup; [apply Permutation_sym; exact Hp|]. apply eth_map_repr. }
    unfold R, filter_tx_list. rewrite Hs. fold W. rewrite sort_eth_of by exact Hn.
    destruct (in_dec N.eq_dec s perm) as [Hi|Hi]; [reflexivity|].
    unfold sender_run. destruct (aget N.eqb s (eth_map W)) eqn:E; [|reflexivity].
    exfalso. apply Hi. eapply Permutation_in; [apply Permutation_sym; exact Hp|].
    unfold sender_keys. eapply aget_Some_keys; [exact N_eqb_ok|exact E].
  Qed.
End Filter.

Lemma filter_perm e nonce_of p1 p2 count excl isAll pool :
  Permutation p1 p2 ->
  Permutation (filter_tx_list e nonce_of p1 count excl isAll pool)
              (filter_tx_list e nonce_of p2 count excl isAll pool).
Proof.
  intros H. unfold filter_tx_list. destruct (sort_active e); [apply sort_perm; exact H|apply Permutation_refl].
Qed.

(** ** consecutive nonces, position by position *)
Lemma consecb_nth : forall l cur k n,
  in64 cur = true -> consecb cur l = true -> nth_error l k = Some n ->
  n = wrap64 (cur + Z.of_nat k).
Proof.
  induction l as [|x l IH]; intros cur k n Hc Hl Hk; [destruct k; discriminate|].
  simpl in Hl. apply andb_true_iff in Hl as [Hx Hl]. apply Z.eqb_eq in Hx. subst x.
  destruct k as [|k]; simpl in Hk.
  - injection Hk as <-. rewrite Z.add_0_r. symmetry. apply in64_wrap. exact Hc.
  - apply (IH _ _ _ (wrap64_in64 _) Hl) in Hk. rewrite wrap64_add in Hk. subst n. f_equal. lia.
Qed.

Lemma consecb_nth_nowrap l cur k n :
  in64 cur = true -> consecb cur l = true -> nth_error l k = Some n ->
  cur + Z.of_nat (length l) <= two63 -> n = cur + Z.of_nat k.
Proof.
  intros Hc Hl Hk Hb. rewrite (consecb_nth l cur k n Hc Hl Hk).
  assert (Hlt : (k < length l)%nat) by (apply nth_error_Some; congruence).
  apply in64_wrap. unfold in64 in *. apply andb_true_iff in Hc as [H1 H2].
  apply Z.leb_le in H1. apply Z.ltb_lt in H2. apply andb_true_iff. split; [apply Z.leb_le|apply Z.ltb_lt]; lia.
Qed.

Lemma R_eth_runs_nth e nonce_of perm count excl isAll pool s k n :
  sort_active e = true -> NoDup perm -> in64 (nonce_of s) = true ->
  nth_error (map t_nonce (eth_of s (filter_tx_list e nonce_of perm count excl isAll pool))) k = Some n ->
  n = wrap64 (nonce_of s + Z.of_nat k).
Proof.
  intros Hs Hn Hc Hk. eapply consecb_nth; [exact Hc| |exact Hk]. apply R_eth_runs; assumption.
Qed.

Lemma R_eth_runs_nowrap e nonce_of perm count excl isAll pool s k n :
  sort_active e = true -> NoDup perm -> in64 (nonce_of s) = true ->
  nonce_of s + Z.of_nat (length (eth_of s (filter_tx_list e nonce_of perm count excl isAll pool))) <= two63 ->
  nth_error (map t_nonce (eth_of s (filter_tx_list e nonce_of perm count excl isAll pool))) k = Some n ->
  n = nonce_of s + Z.of_nat k.
Proof.
  intros Hs Hn Hc Hb Hk. eapply consecb_nth_nowrap; [exact Hc| |exact Hk|rewrite map_length; exact Hb].
  apply R_eth_runs; assumption.
Qed.

Lemma R_eth_runs_maximal e nonce_of perm count excl isAll pool s :
  sort_active e = true -> Permutation perm (sender_keys (filter_walk e count excl isAll pool)) ->
  in64 (nonce_of s) = true -> Z.of_nat (length pool) < two64 ->
  forall t, In t (filter_walk e count excl isAll pool) -> is_eth t = true -> t_from t = s ->
    t_nonce t <> wrap64 (nonce_of s + Z.of_nat (length (eth_of s (filter_tx_list e nonce_of perm count excl isAll pool)))).
Proof.
  intros Hs Hp Hc Hl t Ht He Hf. rewrite R_eth_of_exact by assumption.
  apply sender_run_maximal; auto.
  pose proof (W_length_pool e count excl isAll pool). lia.
Qed.

Lemma R_items_prop e nonce_of perm count excl isAll pool t :
  In t (filter_tx_list e nonce_of perm count excl isAll pool) ->
  exists it, In it pool /\ i_tx it = t /\ ~ In (t_id t) excl
             /\ (isAll = false -> is_expired e it (e_height e + 1) (e_blocktime e) = false).
Proof.
  intros H. apply R_items in H as (it & H1 & H2 & H3 & H4). exists it. repeat split; auto.
  intros Hi. apply mem_n_In in Hi. congruence.
Qed.
