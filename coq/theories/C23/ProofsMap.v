(** C23 — association-list maps and what sortEthSignTyTx's two-level map
    ethsignTxs[from][nonce] contains after the loop over the walked list. *)
From Coq Require Import List ZArith NArith Bool Lia.
From C33 Require Import C23.Model C23.ProofsWalk.
Import ListNotations.
Open Scope Z_scope.

Section Assoc.
  Variables (K V : Type) (eqb : K -> K -> bool).
  Hypothesis eqb_ok : forall a b, eqb a b = true <-> a = b.

  Lemma eqb_refl' k : eqb k k = true.
  Proof. apply eqb_ok. reflexivity. Qed.

  Lemma eqb_neq a b : a <> b -> eqb a b = false.
  Proof. intros H. destruct (eqb a b) eqn:E; [|reflexivity]. apply eqb_ok in E. contradiction. Qed.

  Lemma aget_aput_same k (v : V) m : aget eqb k (aput eqb k v m) = Some v.
  Proof.
    induction m as [|[k' v'] m IH]; simpl.
    - rewrite eqb_refl'. reflexivity.
    - destruct (eqb k' k) eqn:E; simpl.
      + rewrite eqb_refl'. reflexivity.
      + rewrite E. exact IH.
  Qed.

  Lemma aget_aput_other k k' (v : V) m : k' <> k -> aget eqb k' (aput eqb k v m) = aget eqb k' m.
  Proof.
    intros Hn. induction m as [|[k0 v0] m IH]; simpl.
    - rewrite eqb_neq; auto.
    - destruct (eqb k0 k) eqn:E; simpl.
      + apply eqb_ok in E. subst k0. rewrite !eqb_neq; auto.
      + destruct (eqb k0 k'); auto.
  Qed.

  Lemma aget_None_keys k (m : list (K * V)) : aget eqb k m = None <-> ~ In k (map fst m).
  Proof.
    induction m as [|[k' v'] m IH]; simpl.
    - split; auto.
    - destruct (eqb k' k) eqn:E.
      + apply eqb_ok in E. subst. split; [discriminate|]. intros H. exfalso. apply H. left. reflexivity.
      + rewrite IH. split.
        * intros H [H1|H1]; [subst; rewrite eqb_refl' in E; discriminate|contradiction].
        * intros H H1. apply H. right. assumption.
  Qed.

  Lemma aget_Some_keys k (v : V) m : aget eqb k m = Some v -> In k (map fst m).
  Proof.
    induction m as [|[k' v'] m IH]; simpl; [discriminate|].
    destruct (eqb k' k) eqn:E.
    - apply eqb_ok in E. auto.
    - intros H. right. auto.
  Qed.

  Lemma keys_aput k (v : V) m :
    map fst (aput eqb k v m) =
    match aget eqb k m with Some _ => map fst m | None => map fst m ++ [k] end.
  Proof.
    induction m as [|[k' v'] m IH]; simpl; [reflexivity|].
    destruct (eqb k' k) eqn:E; simpl.
    - apply eqb_ok in E. subst. reflexivity.
    - rewrite IH. destruct (aget eqb k m); reflexivity.
  Qed.

  Lemma NoDup_keys_aput k (v : V) m : NoDup (map fst m) -> NoDup (map fst (aput eqb k v m)).
  Proof.
    intros H. rewrite keys_aput. destruct (aget eqb k m) eqn:E; [assumption|].
    apply aget_None_keys in E. apply NoDup_app_intro; auto.
    - constructor; [intros []|constructor].
    - intros x Hx [<-|[]]. contradiction.
  Qed.

  Lemma length_aput k (v : V) m :
    length (aput eqb k v m) = match aget eqb k m with Some _ => length m | None => S (length m) end.
  Proof.
    induction m as [|[k' v'] m IH]; simpl; [reflexivity|].
    destruct (eqb k' k) eqn:E; simpl; [reflexivity|].
    rewrite IH. destruct (aget eqb k m); reflexivity.
  Qed.

  Lemma aget_In k (v : V) m : aget eqb k m = Some v -> In (k, v) m.
  Proof.
    induction m as [|[k' v'] m IH]; simpl; [discriminate|].
    destruct (eqb k' k) eqn:E.
    - apply eqb_ok in E. subst. intros [= ->]. left. reflexivity.
    - intros H. right. auto.
  Qed.
End Assoc.

Lemma N_eqb_ok : forall a b : N, N.eqb a b = true <-> a = b.
Proof. intros. apply N.eqb_eq. Qed.
Lemma Z_eqb_ok : forall a b : Z, Z.eqb a b = true <-> a = b.
Proof. intros. apply Z.eqb_eq. Qed.

(** ** the last element of a list satisfying a predicate *)
Fixpoint last_with (p : tx -> bool) (l : list tx) : option tx :=
  match l with
  | [] => None
  | t :: tl =>
      match last_with p tl with
      | Some r => Some r
      | None => if p t then Some t else None
      end
  end.

Lemma last_with_snoc p l t : last_with p (l ++ [t]) = if p t then Some t else last_with p l.
Proof.
  induction l as [|x l IH]; simpl.
  - destruct (p t); reflexivity.
  - rewrite IH. destruct (p t); [reflexivity|]. reflexivity.
Qed.

Lemma last_with_Some p l t : last_with p l = Some t -> In t l /\ p t = true.
Proof.
  induction l as [|x l IH]; simpl; [discriminate|].
  destruct (last_with p l) eqn:E.
  - intros [= <-]. destruct (IH eq_refl). auto.
  - destruct (p x) eqn:Ep; [|discriminate]. intros [= <-]. auto.
Qed.

Lemma last_with_None p l : last_with p l = None -> forall t, In t l -> p t = false.
Proof.
  induction l as [|x l IH]; simpl; [intros _ t []|].
  destruct (last_with p l) eqn:E; [discriminate|].
  destruct (p x) eqn:Ep; [discriminate|]. intros _ t [<-|H]; auto.
Qed.

(** ** the two-level map *)
Definition sel (s : N) (n : Z) (t : tx) : bool :=
  is_eth t && N.eqb (t_from t) s && Z.eqb (t_nonce t) n.

(** [m] is ethsignTxs after the transactions [txs] were processed *)
Definition repr (m : smap) (txs : list tx) : Prop :=
  NoDup (map fst m) /\
  forall s,
    match aget N.eqb s m with
    | Some nm => NoDup (map fst nm) /\ forall n, aget Z.eqb n nm = last_with (sel s n) txs
    | None => forall n, last_with (sel s n) txs = None
    end.

Lemma repr_nil : repr [] [].
Proof. split; [constructor|]. intros s. simpl. reflexivity. Qed.

Lemma repr_step m pre t :
  repr m pre -> repr (if is_eth t then add_eth m t else m) (pre ++ [t]).
Proof.
  unfold repr, add_eth, smap, nmap in *. intros [Hk Hr]. destruct (is_eth t) eqn:Et.
  - unfold add_eth. split.
    + apply NoDup_keys_aput; [exact N_eqb_ok|exact Hk].
    + intros s. destruct (N.eq_dec s (t_from t)) as [->|Hs].
      * rewrite aget_aput_same by exact N_eqb_ok.
        specialize (Hr (t_from t)). revert Hr.
        destruct (aget N.eqb (t_from t) m) as [nm0|]; intros Hr.
        { destruct Hr as [Hn0 Hg0]. split.
          - apply NoDup_keys_aput; [exact Z_eqb_ok|exact Hn0].
          - intros n. rewrite last_with_snoc. unfold sel at 1. rewrite Et, N.eqb_refl. cbn [andb].
            destruct (Z.eqb_spec (t_nonce t) n) as [->|Hn].
            + rewrite aget_aput_same by exact Z_eqb_ok. reflexivity.
            + rewrite aget_aput_other by (try exact Z_eqb_ok; congruence). apply Hg0. }
        { split.
          - apply NoDup_keys_aput; [exact Z_eqb_ok|constructor].
          - intros n. rewrite last_with_snoc. unfold sel at 1. rewrite Et, N.eqb_refl. cbn [andb].
            destruct (Z.eqb_spec (t_nonce t) n) as [->|Hn].
            + rewrite aget_aput_same by exact Z_eqb_ok. reflexivity.
            + rewrite aget_aput_other by (try exact Z_eqb_ok; congruence). simpl. symmetry. apply Hr. }
      * rewrite aget_aput_other by (try exact N_eqb_ok; assumption).
        specialize (Hr s).
        assert (Hsel : forall n, sel s n t = false).
        { intros n. unfold sel. rewrite Et. simpl.
          destruct (N.eqb_spec (t_from t) s); [congruence|reflexivity]. }
        revert Hr. destruct (aget N.eqb s m); intros Hr.
        { split; [apply Hr|]. intros n. rewrite last_with_snoc, Hsel. apply Hr. }
        intros n. rewrite last_with_snoc, Hsel. apply Hr.
  - split; [exact Hk|]. intros s. specialize (Hr s).
    assert (Hsel : forall n, sel s n t = false). { intros n. unfold sel. rewrite Et. reflexivity. }
    revert Hr. destruct (aget N.eqb s m); intros Hr.
    + split; [apply Hr|]. intros n. rewrite last_with_snoc, Hsel. apply Hr.
    + intros n. rewrite last_with_snoc, Hsel. apply Hr.
Qed.

Lemma fold_left_snoc_inv {A B} (f : A -> B -> A) (P : A -> list B -> Prop) :
  (forall a pre x, P a pre -> P (f a x) (pre ++ [x])) ->
  forall l pre a, P a pre -> P (fold_left f l a) (pre ++ l).
Proof.
  intros Hs. induction l as [|x l IH]; intros pre a Hp; simpl.
  - rewrite app_nil_r. exact Hp.
  - replace (pre ++ x :: l) with ((pre ++ [x]) ++ l) by (rewrite <- app_assoc; reflexivity).
    apply IH. apply Hs. exact Hp.
Qed.

Lemma eth_map_repr txs : repr (eth_map txs) txs.
Proof.
  unfold eth_map.
  apply (fold_left_snoc_inv (fun m t => if is_eth t then add_eth m t else m) repr
           (fun a pre x H => repr_step a pre x H) txs [] []).
  exact repr_nil.
Qed.

(** ** size of the map: never more entries than eth transactions *)
Definition msize (m : smap) : nat := list_sum (map (fun p => length (snd p)) m).

Lemma msize_aput_present s nm nm' (m : smap) :
  aget N.eqb s m = Some nm -> (msize (aput N.eqb s nm' m) + length nm = msize m + length nm')%nat.
Proof.
  unfold msize. induction m as [|[k v] m IH]; simpl; [discriminate|].
  destruct (N.eqb k s) eqn:E; simpl.
  - intros [= ->]. lia.
  - intros H. specialize (IH H). lia.
Qed.

Lemma msize_aput_absent s nm' (m : smap) :
  aget N.eqb s m = None -> msize (aput N.eqb s nm' m) = (msize m + length nm')%nat.
Proof.
  unfold msize. induction m as [|[k v] m IH]; simpl; [lia|].
  destruct (N.eqb k s) eqn:E; simpl; [discriminate|].
  intros H. rewrite (IH H). lia.
Qed.

Lemma msize_add_eth m t : (msize (add_eth m t) <= S (msize m))%nat.
Proof.
  unfold add_eth. destruct (aget N.eqb (t_from t) m) as [nm|] eqn:E.
  - pose proof (msize_aput_present _ _ (aput Z.eqb (t_nonce t) t nm) _ E) as H.
    rewrite length_aput in H. unfold smap, nmap in *. destruct (aget Z.eqb (t_nonce t) nm); lia.
  - rewrite (msize_aput_absent _ _ _ E). simpl. lia.
Qed.

Lemma msize_fold txs : forall m,
  (msize (fold_left (fun m t => if is_eth t then add_eth m t else m) txs m)
   <= msize m + length (filter is_eth txs))%nat.
Proof.
  induction txs as [|t txs IH]; intros m; simpl; [lia|].
  destruct (is_eth t); simpl.
  - specialize (IH (add_eth m t)). pose proof (msize_add_eth m t). lia.
  - apply IH.
Qed.

Lemma msize_eth_map txs : (msize (eth_map txs) <= length (filter is_eth txs))%nat.
Proof. unfold eth_map. pose proof (msize_fold txs []). simpl in H. exact H. Qed.

Lemma msize_aget s nm (m : smap) : aget N.eqb s m = Some nm -> (length nm <= msize m)%nat.
Proof.
  unfold msize. induction m as [|[k v] m IH]; simpl; [discriminate|].
  destruct (N.eqb k s).
  - intros [= ->]. lia.
  - intros H. specialize (IH H). lia.
Qed.

(** summing the sizes of the nonce maps of distinct senders *)
Definition nm_len (m : smap) (s : N) : nat :=
  match aget N.eqb s m with Some nm => length nm | None => 0%nat end.

Lemma sum_nm_len (m : smap) : forall perm,
  NoDup perm -> (list_sum (map (nm_len m) perm) <= msize m)%nat.
Proof.
  unfold msize. induction m as [|[k v] m IH]; intros perm Hn.
  - simpl. induction perm as [|s perm IHp]; simpl; [lia|]. inversion Hn; subst.
    unfold nm_len at 1. simpl. apply IHp. assumption.
  - simpl. specialize (IH perm Hn).
    assert (H : (list_sum (map (nm_len ((k, v) :: m)) perm)
                 <= length v + list_sum (map (nm_len m) perm))%nat).
    { clear IH. induction perm as [|s perm IHp]; simpl; [lia|]. inversion Hn; subst.
      unfold nm_len at 1 3. simpl. destruct (N.eqb_spec k s) as [->|Hk].
      - (* the key occurs once: the remaining senders do not see it *)
        assert (R : map (nm_len ((s, v) :: m)) perm = map (nm_len m) perm).
        { apply map_ext_in. intros a Ha. unfold nm_len. simpl.
          destruct (N.eqb_spec s a) as [->|]; [contradiction|reflexivity]. }
        rewrite R. destruct (aget N.eqb s m); lia.
      - specialize (IHp H2). lia. }
    lia.
Qed.
