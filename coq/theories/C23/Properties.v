(** C23 — property theorems only.
    [filter_tx_list e nonce_of perm count excl isAll pool] is filterTxList on the
    pool (in Walk order) with the request's count and exclusion list;
    [get_tx_list] is the block producer's path (isAll = false), [event_tx_list]
    the EventTxList handler.  [nonce_of] is the answer of getCurrentNonce per
    sender and [perm] the order in which Go's map iteration visits the eth
    senders; every theorem quantifies over both. *)
From Coq Require Import List ZArith NArith Bool Lia Permutation.
From C33 Require Import C23.Model C23.Spec C23.ProofsWalk C23.ProofsMap C23.ProofsRun
                        C23.ProofsMain C23.ProofsSpec C23.ProofsExamples.
Import ListNotations.
Open Scope Z_scope.

(** at most the requested number of entries *)
Theorem C23_length_le_count : forall e nonce_of perm count excl isAll pool,
  0 < count -> NoDup perm ->
  Z.of_nat (length (filter_tx_list e nonce_of perm count excl isAll pool)) <= count.
Proof. intros. apply R_length; assumption. Qed.
Print Assumptions C23_length_le_count.

(** EventTxList: a count <= 0 is refused, otherwise the reply is getTxList *)
Theorem C23_event_reply : forall e nonce_of perm count excl pool,
  (count <= 0 -> event_tx_list e nonce_of perm count excl pool = RErr) /\
  (0 < count -> event_tx_list e nonce_of perm count excl pool
                = RList (filter_tx_list e nonce_of perm count excl false pool)).
Proof.
  intros. unfold event_tx_list, get_tx_list. split; intros H; destruct (Z.leb_spec count 0); auto; lia.
Qed.
Print Assumptions C23_event_reply.

(** no duplicates (the pool holds every hash once: C21's invariant) *)
Theorem C23_no_duplicates : forall e nonce_of perm count excl isAll pool,
  NoDup (map (fun it => t_id (i_tx it)) pool) -> NoDup perm ->
  (forall s, in64 (nonce_of s) = true) -> Z.of_nat (length pool) < two64 ->
  NoDup (map t_id (filter_tx_list e nonce_of perm count excl isAll pool)).
Proof. intros. apply R_nodup; assumption. Qed.
Print Assumptions C23_no_duplicates.

(** every entry is a pooled transaction, none is excluded, none is expired for
    the next block (height + 1, last block time, pool age) *)
Theorem C23_pooled_not_excluded_not_expired : forall e nonce_of perm count excl isAll pool t,
  In t (filter_tx_list e nonce_of perm count excl isAll pool) ->
  exists it, In it pool /\ i_tx it = t /\ ~ In (t_id t) excl
             /\ (isAll = false -> is_expired e it (e_height e + 1) (e_blocktime e) = false).
Proof. exact R_items_prop. Qed.
Print Assumptions C23_pooled_not_excluded_not_expired.

(** the transactions that are not eth-signed keep their arrival order (and are
    exactly those the walk selected) *)
Theorem C23_non_eth_keep_order : forall e nonce_of perm count excl isAll pool,
  non_eth (filter_tx_list e nonce_of perm count excl isAll pool)
    = non_eth (filter_walk e count excl isAll pool)
  /\ sublist (non_eth (filter_tx_list e nonce_of perm count excl isAll pool)) (map i_tx pool).
Proof. intros. split; [apply R_non_eth|apply R_non_eth_sublist]. Qed.
Print Assumptions C23_non_eth_keep_order.

(** before ForkCheckEthTxSort the whole list is in arrival order *)
Theorem C23_prefork_arrival_order : forall e nonce_of perm count excl isAll pool,
  sort_active e = false ->
  sublist (filter_tx_list e nonce_of perm count excl isAll pool) (map i_tx pool).
Proof. intros. apply R_prefork_sublist. assumption. Qed.
Print Assumptions C23_prefork_arrival_order.

(** after the fork: the k-th transaction of an eth sender carries the nonce
    current + k (int64 arithmetic, as the loop's nonce++) *)
Theorem C23_eth_runs_consecutive : forall e nonce_of perm count excl isAll pool s k n,
  sort_active e = true -> NoDup perm -> in64 (nonce_of s) = true ->
  nth_error (map t_nonce (eth_of s (filter_tx_list e nonce_of perm count excl isAll pool))) k = Some n ->
  n = wrap64 (nonce_of s + Z.of_nat k).
Proof. exact R_eth_runs_nth. Qed.
Print Assumptions C23_eth_runs_consecutive.

(** ... which is current + k whenever the run does not cross MaxInt64 *)
Theorem C23_eth_runs_consecutive_nowrap : forall e nonce_of perm count excl isAll pool s k n,
  sort_active e = true -> NoDup perm -> in64 (nonce_of s) = true ->
  nonce_of s + Z.of_nat (length (eth_of s (filter_tx_list e nonce_of perm count excl isAll pool))) <= two63 ->
  nth_error (map t_nonce (eth_of s (filter_tx_list e nonce_of perm count excl isAll pool))) k = Some n ->
  n = nonce_of s + Z.of_nat k.
Proof. exact R_eth_runs_nowrap. Qed.
Print Assumptions C23_eth_runs_consecutive_nowrap.

(** the run of a sender ends only where the walked list has no transaction of
    that sender with the next nonce *)
Theorem C23_eth_runs_maximal : forall e nonce_of perm count excl isAll pool s,
  sort_active e = true -> Permutation perm (sender_keys (filter_walk e count excl isAll pool)) ->
  in64 (nonce_of s) = true -> Z.of_nat (length pool) < two64 ->
  forall t, In t (filter_walk e count excl isAll pool) -> is_eth t = true -> t_from t = s ->
    t_nonce t <> wrap64 (nonce_of s + Z.of_nat (length (eth_of s (filter_tx_list e nonce_of perm count excl isAll pool)))).
Proof. exact R_eth_runs_maximal. Qed.
Print Assumptions C23_eth_runs_maximal.

(** Go's map iteration order only permutes the result *)
Theorem C23_sender_order_irrelevant : forall e nonce_of p1 p2 count excl isAll pool,
  Permutation p1 p2 ->
  Permutation (filter_tx_list e nonce_of p1 count excl isAll pool)
              (filter_tx_list e nonce_of p2 count excl isAll pool).
Proof. exact filter_perm. Qed.
Print Assumptions C23_sender_order_irrelevant.

(** the executable oracle of C23.Spec (which judges the Go implementation's
    replies) accepts every reply of the model *)
Theorem C23_oracle_accepts_model : forall e nonce_of perm count excl isAll pool,
  NoDup (map (fun it => t_id (i_tx it)) pool) ->
  Permutation perm (sender_keys (filter_walk e count excl isAll pool)) ->
  (forall s, in64 (nonce_of s) = true) -> Z.of_nat (length pool) < two64 ->
  spec_list e nonce_of (mkReq count excl isAll) pool
            (map t_id (filter_tx_list e nonce_of perm count excl isAll pool)) = true.
Proof. exact oracle_accepts_model. Qed.
Print Assumptions C23_oracle_accepts_model.

(** the hypotheses are satisfiable by a pool on which every clause has work to do *)
Theorem C23_hypotheses_satisfiable :
  NoDup (map (fun it => t_id (i_tx it)) ex_pool)
  /\ NoDup [2; 1]%N
  /\ Permutation [2; 1]%N (sender_keys (filter_walk ex_env 20 [] false ex_pool))
  /\ (forall s, in64 (ex_nonce s) = true)
  /\ Z.of_nat (length ex_pool) < two64
  /\ sort_active ex_env = true.
Proof. exact ex_hyps. Qed.
Print Assumptions C23_hypotheses_satisfiable.
