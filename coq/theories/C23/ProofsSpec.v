(** C23 — the executable oracle (C23.Spec) accepts what the model returns. *)
From Coq Require Import List ZArith NArith Bool Lia Permutation.
From C33 Require Import C23.Model C23.Spec C23.ProofsWalk C23.ProofsMap C23.ProofsRun C23.ProofsMain.
Import ListNotations.
Open Scope Z_scope.

Lemma nodupb_NoDup l : NoDup l -> nodupb l = true.
Proof.
  induction 1 as [|x l Hx Hn IH]; simpl; [reflexivity|].
  rewrite IH, andb_true_r. destruct (mem_n x l) eqn:E; [|reflexivity].
  apply mem_n_In in E. contradiction.
Qed.

Lemma sublist_tail {A} (y : A) a b : sublist (y :: a) b -> sublist a b.
Proof.
  induction b as [|x b IH]; intros H; inversion H; subst.
  - apply sl_skip. assumption.
  - apply sl_skip. apply IH. assumption.
Qed.

Lemma sublist_subseqb : forall b a, sublist a b -> subseqb a b = true.
Proof.
  induction b as [|x b IH]; intros a H.
  - inversion H; subst. reflexivity.
  - destruct a as [|y a]; [reflexivity|]. simpl.
    destruct (N.eqb_spec y x) as [->|Hne].
    + apply IH. inversion H; subst; [assumption|]. eapply sublist_tail. eassumption.
    + apply IH. inversion H; subst; [congruence|assumption].
Qed.

Lemma find_item_In pool it :
  NoDup (map (fun it => t_id (i_tx it)) pool) -> In it pool ->
  find_item (t_id (i_tx it)) pool = Some it.
Proof.
  induction pool as [|x pool IH]; simpl; intros Hn Hi; [contradiction|].
  inversion Hn as [|? ? Hx Hn']; subst. destruct Hi as [->|Hi].
  - rewrite N.eqb_refl. reflexivity.
  - destruct (N.eqb_spec (t_id (i_tx x)) (t_id (i_tx it))) as [E|E].
    + exfalso. apply Hx. rewrite E. apply (in_map (fun it => t_id (i_tx it))). exact Hi.
    + apply IH; assumption.
Qed.

Lemma resolve_ok pool l :
  NoDup (map (fun it => t_id (i_tx it)) pool) ->
  (forall t, In t l -> exists it, In it pool /\ i_tx it = t) ->
  exists its, resolve pool (map t_id l) = Some its /\ map i_tx its = l /\ (forall it, In it its -> In it pool).
Proof.
  intros Hn. induction l as [|t l IH]; intros H.
  - exists []. simpl. repeat split; auto. intros it [].
  - destruct (H t (or_introl eq_refl)) as (it & Hi & <-).
    destruct IH as (its & Hr & Hm & Hp). { intros t Ht. apply H. right. exact Ht. }
    exists (it :: its). simpl. rewrite (find_item_In _ _ Hn Hi), Hr. repeat split.
    + simpl. rewrite Hm. reflexivity.
    + intros x [<-|Hx]; auto.
Qed.

Lemma pool_item_unique pool a b :
  NoDup (map (fun it => t_id (i_tx it)) pool) -> In a pool -> In b pool -> i_tx a = i_tx b -> a = b.
Proof.
  intros Hn Ha Hb E. pose proof (find_item_In _ _ Hn Ha) as Fa. pose proof (find_item_In _ _ Hn Hb) as Fb.
  rewrite E in Fa. congruence.
Qed.

Lemma oracle_accepts_model e nonce_of perm count excl isAll pool :
  NoDup (map (fun it => t_id (i_tx it)) pool) ->
  Permutation perm (sender_keys (filter_walk e count excl isAll pool)) ->
  (forall s, in64 (nonce_of s) = true) -> Z.of_nat (length pool) < two64 ->
  spec_list e nonce_of (mkReq count excl isAll) pool
            (map t_id (filter_tx_list e nonce_of perm count excl isAll pool)) = true.
Proof.
  intros Hn Hp Hc Hl.
  set (R := filter_tx_list e nonce_of perm count excl isAll pool).
  assert (Hperm : NoDup perm).
  { eapply Permutation_NoDup; [apply Permutation_sym; exact Hp|]. apply eth_map_repr. }
  assert (Hitems : forall t, In t R -> exists it, In it pool /\ i_tx it = t).
  { intros t Ht. apply R_items in Ht as (it & ? & ? & _). exists it. auto. }
  destruct (resolve_ok pool R Hn Hitems) as (its & Hres & Hmap & Hin).
  unfold spec_list. rewrite Hres. cbn [r_count r_excl r_all]. rewrite Hmap.
  repeat (apply andb_true_iff; split).
  - destruct (Z.leb_spec count 0) as [|Hpos]; [reflexivity|]. simpl. apply Z.leb_le.
    rewrite map_length. apply R_length; assumption.
  - apply nodupb_NoDup. apply R_nodup; assumption.
  - apply forallb_forall. intros id Hid. apply in_map_iff in Hid as (t & <- & Ht).
    apply R_items in Ht as (_ & _ & _ & Hx & _). rewrite Hx. reflexivity.
  - destruct isAll eqn:Ea; [reflexivity|]. simpl. apply forallb_forall. intros it Hit.
    assert (Ht : In (i_tx it) R). { rewrite <- Hmap. apply in_map. exact Hit. }
    apply R_items in Ht as (it' & Hi' & Ht' & _ & He).
    assert (it' = it). { eapply pool_item_unique; eauto. }
    subst it'. rewrite (He eq_refl). reflexivity.
  - destruct (sort_active e) eqn:Es.
    + apply andb_true_iff. split.
      * apply sublist_subseqb. rewrite <- (map_map i_tx t_id). apply sublist_map.
        apply R_non_eth_sublist.
      * apply forallb_forall. intros t _. apply orb_true_iff. right.
        apply R_eth_runs; assumption.
    + apply sublist_subseqb. rewrite <- (map_map i_tx t_id). apply sublist_map.
      apply R_prefork_sublist. exact Es.
Qed.
