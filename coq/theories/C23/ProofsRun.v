(** C23 — the nonce loop of sortEthSignTyTx:
    for nonce := currentNonce; ; nonce++ { tx, ok := txs[nonce]; if !ok {break}; append }  *)
From Coq Require Import List ZArith NArith Bool Lia.
From C33 Require Import C23.Model C23.Spec C23.ProofsWalk C23.ProofsMap.
Import ListNotations.
Open Scope Z_scope.

(** ** int64 wrap-around *)
Lemma two64_two63 : two64 = 2 * two63.
Proof. reflexivity. Qed.

Lemma wrap64_range z : - two63 <= wrap64 z < two63.
Proof.
  unfold wrap64. pose proof (Z.mod_pos_bound (z + two63) two64 eq_refl). rewrite two64_two63 in *. lia.
Qed.

Lemma in64_wrap z : in64 z = true -> wrap64 z = z.
Proof.
  unfold in64, wrap64. intros H. apply andb_true_iff in H as [H1 H2].
  apply Z.leb_le in H1. apply Z.ltb_lt in H2.
  rewrite Z.mod_small; [lia|]. rewrite two64_two63. lia.
Qed.

Lemma wrap64_in64 z : in64 (wrap64 z) = true.
Proof.
  pose proof (wrap64_range z). unfold in64. apply andb_true_iff. split; [apply Z.leb_le|apply Z.ltb_lt]; lia.
Qed.

Lemma wrap64_succ z : wrap64 (wrap64 z + 1) = wrap64 (z + 1).
Proof.
  unfold wrap64.
  replace ((z + two63) mod two64 - two63 + 1 + two63) with ((z + two63) mod two64 + 1) by lia.
  replace (z + 1 + two63) with ((z + two63) + 1) by lia.
  rewrite Z.add_mod_idemp_l by discriminate. reflexivity.
Qed.

Lemma wrap64_add z k : wrap64 (wrap64 z + k) = wrap64 (z + k).
Proof.
  unfold wrap64.
  replace ((z + two63) mod two64 - two63 + k + two63) with ((z + two63) mod two64 + k) by lia.
  replace (z + k + two63) with ((z + two63) + k) by lia.
  rewrite Z.add_mod_idemp_l by discriminate. reflexivity.
Qed.

(** the nonce after [f] increments *)
Fixpoint step_n (f : nat) (c : Z) : Z :=
  match f with O => c | S f' => step_n f' (wrap64 (c + 1)) end.

Lemma step_n_form : forall f c, in64 c = true -> step_n f c = wrap64 (c + Z.of_nat f).
Proof.
  induction f as [|f IH]; intros c Hc.
  - simpl. rewrite Z.add_0_r. symmetry. apply in64_wrap. exact Hc.
  - cbn [step_n]. rewrite IH by apply wrap64_in64. rewrite wrap64_add. f_equal. lia.
Qed.

Lemma wrap64_inj a b : wrap64 a = wrap64 b -> 0 <= b - a < two64 -> a = b.
Proof.
  unfold wrap64. intros E Hr.
  assert (E' : (a + two63) mod two64 = (b + two63) mod two64) by lia.
  pose proof (Z.div_mod (a + two63) two64 ltac:(discriminate)) as Da.
  pose proof (Z.div_mod (b + two63) two64 ltac:(discriminate)) as Db.
  rewrite E' in Da.
  assert (Hq : two64 * ((b + two63) / two64 - (a + two63) / two64) = b - a) by lia.
  assert (Hz : (b + two63) / two64 - (a + two63) / two64 = 0).
  { assert (0 < two64) by reflexivity. nia. }
  lia.
Qed.

(** ** the run *)
Section Run.
  Variable nm : nmap.
  (** every entry is stored under its own nonce *)
  Hypothesis keyed : forall n t, aget Z.eqb n nm = Some t -> t_nonce t = n.

  Lemma run_length : forall fuel cur, (length (run nm cur fuel) <= fuel)%nat.
  Proof.
    induction fuel as [|f IH]; intros cur; simpl; [lia|].
    destruct (aget Z.eqb cur nm); simpl; [specialize (IH (wrap64 (cur + 1))); lia|lia].
  Qed.

  Lemma run_in : forall fuel cur t, In t (run nm cur fuel) -> exists n, aget Z.eqb n nm = Some t.
  Proof.
    induction fuel as [|f IH]; intros cur t; simpl; [contradiction|].
    destruct (aget Z.eqb cur nm) as [t0|] eqn:E; [|contradiction].
    intros [<-|H]; [exists cur; exact E|]. eapply IH; eauto.
  Qed.

  (** nonces consecutive from [cur] (in int64 arithmetic) *)
  Lemma run_consec : forall fuel cur, consecb cur (map t_nonce (run nm cur fuel)) = true.
  Proof.
    induction fuel as [|f IH]; intros cur; simpl; [reflexivity|].
    destruct (aget Z.eqb cur nm) as [t0|] eqn:E; simpl; [|reflexivity].
    rewrite (keyed _ _ E), Z.eqb_refl. simpl. apply IH.
  Qed.

  Lemma run_nonce_form : forall fuel c n,
    In n (map t_nonce (run nm (wrap64 c) fuel)) ->
    exists i, 0 <= i < Z.of_nat fuel /\ n = wrap64 (c + i).
  Proof.
    induction fuel as [|f IH]; intros c n; simpl; [contradiction|].
    destruct (aget Z.eqb (wrap64 c) nm) as [t0|] eqn:E; simpl; [|contradiction].
    intros [H|H].
    - exists 0. split; [lia|]. rewrite Z.add_0_r. rewrite <- H. apply keyed. exact E.
    - rewrite wrap64_succ in H. apply IH in H as (i & Hi & ->).
      exists (i + 1). split; [lia|]. f_equal. lia.
  Qed.

  (** within 2^64 steps no nonce is visited twice *)
  Lemma run_nodup_nonce : forall fuel c,
    Z.of_nat fuel <= two64 -> NoDup (map t_nonce (run nm (wrap64 c) fuel)).
  Proof.
    induction fuel as [|f IH]; intros c Hf; simpl; [constructor|].
    destruct (aget Z.eqb (wrap64 c) nm) as [t0|] eqn:E; simpl; [|constructor].
    rewrite wrap64_succ. constructor.
    - intros H. apply run_nonce_form in H as (i & Hi & Hn).
      rewrite (keyed _ _ E) in Hn. apply wrap64_inj in Hn; lia.
    - apply IH. lia.
  Qed.

  Lemma run_nodup : forall fuel cur,
    in64 cur = true -> Z.of_nat fuel <= two64 -> NoDup (run nm cur fuel).
  Proof.
    intros fuel cur Hc Hf. apply (NoDup_map_inv t_nonce).
    rewrite <- (in64_wrap cur Hc). apply run_nodup_nonce. exact Hf.
  Qed.

  (** the loop never needs more iterations than the map has keys: once
      [length nm] entries were appended every key has been visited, and the
      next nonce is a new one (fewer than 2^64 keys) *)
  Lemma run_fuel_enough : forall extra cur,
    NoDup (map fst nm) -> in64 cur = true -> Z.of_nat (length nm) < two64 ->
    run nm cur (length nm + extra) = run nm cur (length nm).
  Proof.
    intros extra cur Hk Hc Hlen.
    (* general statement: more fuel only matters if the short run used all of its fuel *)
    assert (G : forall f c x, (length (run nm c f) < f)%nat -> run nm c (f + x) = run nm c f).
    { induction f as [|f IH]; intros c x Hl; simpl in *; [lia|].
      destruct (aget Z.eqb c nm); simpl in *; [|reflexivity]. f_equal. apply IH. lia. }
    destruct (Nat.lt_ge_cases (length (run nm cur (length nm))) (length nm)) as [Hlt|Hge].
    { apply G. exact Hlt. }
    (* the run used all its fuel: its nonces are all the keys *)
    pose proof (run_length (length nm) cur) as Hle.
    assert (Hfull : length (run nm cur (length nm)) = length nm) by lia.
    assert (Hnd : NoDup (map t_nonce (run nm cur (length nm)))).
    { rewrite <- (in64_wrap cur Hc). apply run_nodup_nonce. lia. }
    assert (Hincl : incl (map t_nonce (run nm cur (length nm))) (map fst nm)).
    { intros n Hn. apply in_map_iff in Hn as (t & <- & Ht). apply run_in in Ht as (n & Hg).
      rewrite (keyed _ _ Hg). eapply aget_Some_keys; [exact Z_eqb_ok|exact Hg]. }
    assert (Hall : incl (map fst nm) (map t_nonce (run nm cur (length nm)))).
    { apply NoDup_length_incl; auto. rewrite !map_length. lia. }
    (* appending fuel: the next lookup misses *)
    assert (S : forall f c x, run nm c (f + x) = run nm c f ++
                 (if Nat.eqb (length (run nm c f)) f
                  then run nm (step_n f c) x else [])).
    { induction f as [|f IH]; intros c x; simpl; [reflexivity|].
      destruct (aget Z.eqb c nm) eqn:E; simpl; [|reflexivity].
      rewrite IH. reflexivity. }
    rewrite S, Hfull, Nat.eqb_refl.
    set (nxt := step_n (length nm) cur).
    assert (Hnxt : nxt = wrap64 (cur + Z.of_nat (length nm))).
    { unfold nxt. apply step_n_form. exact Hc. }
    destruct extra as [|x]; simpl; [rewrite app_nil_r; reflexivity|].
    destruct (aget Z.eqb nxt nm) as [t|] eqn:E; [|rewrite app_nil_r; reflexivity].
    exfalso.
    assert (Hin : In nxt (map t_nonce (run nm cur (length nm)))).
    { apply Hall. eapply aget_Some_keys; [exact Z_eqb_ok|exact E]. }
    rewrite <- (in64_wrap cur Hc) in Hin. apply run_nonce_form in Hin as (i & Hi & Hn).
    rewrite Hnxt in Hn. symmetry in Hn. apply wrap64_inj in Hn; lia.
  Qed.
End Run.
