(** C23 — concrete states showing that the hypotheses of the theorems are
    satisfiable by non-trivial pools and that the model does what the code
    comments say (evaluated by [vm_compute]; these are examples, not theorems). *)
From Coq Require Import List ZArith NArith Bool Lia Permutation.
From C33 Require Import C23.Model C23.Spec C23.ProofsWalk C23.ProofsMap C23.ProofsRun C23.ProofsMain.
Import ListNotations.
Open Scope Z_scope.

Definition ex_env : env := mkEnv 1000 600 10 5000000000 0 false 0.

(* sender 1: eth nonces 1, 0, 3 (gap at 2), sender 2: eth nonce 5 (current 5) and a
   second transaction with the same nonce; plain transactions 2, 6, 8; transaction 6
   expired by height (Expire 11 <= next height 11), 8 too old (entered at 400) *)
Definition ex_pool : list item := [
  mkItem (mkTx 1 true false 1 1 [0]) 900;
  mkItem (mkTx 2 false false 7 0 [0]) 900;
  mkItem (mkTx 3 true false 1 0 [0]) 900;
  mkItem (mkTx 4 true false 2 5 [0]) 900;
  mkItem (mkTx 5 true false 1 3 [12]) 900;
  mkItem (mkTx 6 false false 7 0 [11]) 900;
  mkItem (mkTx 7 true false 2 5 [0]) 900;
  mkItem (mkTx 8 false false 7 0 [0]) 400;
  mkItem (mkTx 9 false false 8 0 [0; 5000000001]) 950 ].

Definition ex_nonce (s : N) : Z := if N.eqb s 2 then 5 else 0.

Example ex_result :
  map t_id (get_tx_list ex_env ex_nonce [2; 1]%N 20 [] ex_pool) = [2; 9; 7; 3; 1]%N.
Proof. vm_compute. reflexivity. Qed.

Example ex_result_other_order :
  map t_id (get_tx_list ex_env ex_nonce [1; 2]%N 20 [] ex_pool) = [2; 9; 3; 1; 7]%N.
Proof. vm_compute. reflexivity. Qed.

Example ex_count_and_exclusion :
  map t_id (get_tx_list ex_env ex_nonce [1; 2]%N 3 [2]%N ex_pool) = [3; 1; 4]%N.
Proof. vm_compute. reflexivity. Qed.

(* the hypotheses used by the theorems hold for this state *)
Example ex_hyps :
  NoDup (map (fun it => t_id (i_tx it)) ex_pool)
  /\ NoDup [2; 1]%N
  /\ Permutation [2; 1]%N (sender_keys (filter_walk ex_env 20 [] false ex_pool))
  /\ (forall s, in64 (ex_nonce s) = true)
  /\ Z.of_nat (length ex_pool) < two64
  /\ sort_active ex_env = true.
Proof.
  split; [|split; [|split; [|split; [|split]]]].
  - vm_compute. repeat constructor; simpl; intuition discriminate.
  - repeat constructor; simpl; intuition discriminate.
  - vm_compute. apply perm_swap.
  - intros s. unfold ex_nonce. destruct (N.eqb s 2); reflexivity.
  - vm_compute. reflexivity.
  - vm_compute. reflexivity.
Qed.

(* int64 wrap-around of the nonce loop: current nonce MaxInt64, the map holds
   MaxInt64 and MinInt64 *)
Example ex_wrap :
  let pool := [ mkItem (mkTx 1 true false 1 (-9223372036854775808) [0]) 900;
                mkItem (mkTx 2 true false 1 9223372036854775807 [0]) 900 ] in
  map t_id (get_tx_list ex_env (fun _ => 9223372036854775807) [1]%N 20 [] pool) = [2; 1]%N.
Proof. vm_compute. reflexivity. Qed.

(* a count that is used up by unpackable eth transactions yields an empty list
   although packable transactions wait behind them (see the report) *)
Example ex_starved :
  let pool := [ mkItem (mkTx 1 true false 1 7 [0]) 900;
                mkItem (mkTx 2 false false 7 0 [0]) 900 ] in
  get_tx_list ex_env (fun _ => 0) [1]%N 1 [] pool = [].
Proof. vm_compute. reflexivity. Qed.
