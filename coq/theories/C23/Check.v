(** C23 — correspondence cases: one pool (in Walk order), one request, the
    nonce answers of the stub rpc module, and what the Go mempool returned:
    the list of transaction ids (or an error reply) and the order in which the
    senders' nonces were requested (= Go's map iteration order). *)
From Coq Require Import List ZArith NArith Bool String.
From C33 Require Import Lib.Harness C23.Model C23.Spec.
Import ListNotations.
Open Scope Z_scope.

Inductive op :=
| OpEvent (count : Z) (excl : list N)     (* EventTxList message -> reply *)
| OpGet (count : Z) (excl : list N)       (* getTxList called directly (count <= 0 allowed) *)
| OpMempool (isAll : bool).               (* EventGetMempool message -> reply *)

Inductive case :=
| Case (e : env) (pool : list item) (nonces : list (N * nreply)) (o : op)
       (asked : list N) (res : option (list N)).

Definition nonce_fn (nonces : list (N * nreply)) (s : N) : Z :=
  match aget N.eqb s nonces with Some r => current_nonce r | None => 0 end.

Definition list_n_eqb := list_eqb N.eqb.

(** [a] is a permutation of the duplicate-free list [b] *)
Definition permb (a b : list N) : bool :=
  nodupb a && Nat.eqb (List.length a) (List.length b) && forallb (fun x => mem_n x b) a.

Definition request_of (o : op) : request :=
  match o with
  | OpEvent c x => mkReq c x false
  | OpGet c x => mkReq c x false
  | OpMempool a => mkReq 0 [] a
  end.

(** the harness must hand over a well-formed case: distinct hashes in the pool,
    int64 nonces *)
Definition wf_case (pool : list item) (nonces : list (N * nreply)) : bool :=
  nodupb (map (fun it => t_id (i_tx it)) pool)
  && forallb (fun it => in64 (t_nonce (i_tx it))) pool
  && forallb (fun p => in64 (current_nonce (snd p))) nonces.

Definition model_reply (e : env) (nf : N -> Z) (perm : list N) (o : op) (pool : list item) : option (list N) :=
  match o with
  | OpEvent c x =>
      match event_tx_list e nf perm c x pool with
      | RErr => None
      | RList l => Some (map t_id l)
      end
  | OpGet c x => Some (map t_id (get_tx_list e nf perm c x pool))
  | OpMempool a => Some (map t_id (event_get_mempool e nf perm a pool))
  end.

Definition model_asked (e : env) (o : op) (pool : list item) : list N :=
  match o with
  | OpEvent c x => if c <=? 0 then [] else asked_keys e c x false pool
  | OpGet c x => asked_keys e c x false pool
  | OpMempool a => asked_keys e 0 [] a pool
  end.

Definition check_case (c : case) : verdict :=
  match c with
  | Case e pool nonces o asked res =>
      if negb (wf_case pool nonces) then (false, false, 0%N)
      else
        let nf := nonce_fn nonces in
        let m := permb asked (model_asked e o pool)
                 && option_eqb list_n_eqb (model_reply e nf asked o pool) res in
        let s := spec_reply e nf (request_of o) pool res in
        mk_verdict m s
  end.

(** compact constructors for the wire format *)
Definition T (id : N) (ethsig para : bool) (from : N) (nonce : Z) (expires : list Z) (enter : Z) : item :=
  mkItem (mkTx id ethsig para from nonce expires) enter.
