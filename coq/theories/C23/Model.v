(** C23 — executable model of the transaction list the mempool hands to block
    producers (system/mempool/base.go getTxList / filterTxList /
    sortEthSignTyTx / getCurrentNonce, cache.go isExpired, types/tx.go
    isExpire / Transactions.IsExpire, eventprocess.go eventTxList /
    eventGetMempool).  The model follows the code as it is.  No proofs here. *)
From Coq Require Import List ZArith NArith Bool.
Import ListNotations.
Open Scope Z_scope.

(** ** int64 arithmetic used by the nonce loop ([nonce++] on an int64) *)
Definition two63 : Z := 9223372036854775808.
Definition two64 : Z := 18446744073709551616.
Definition wrap64 (z : Z) : Z := (z + two63) mod two64 - two63.
Definition in64 (z : Z) : bool := (- two63 <=? z) && (z <? two63).

(** ** transactions as the pool sees them
    [t_id]      the transaction hash (small id; the harness keeps the table)
    [t_ethsig]  types.IsEthSignID(tx.Signature.Ty)
    [t_para]    bytes.HasPrefix(tx.Execer, "user.p.")
    [t_from]    tx.From() (small id of the address string)
    [t_nonce]   tx.Nonce
    [t_expires] Expire of the transaction itself, or of every member when the
                pool entry is the head of a transaction group (GetTxGroup) *)
Record tx := mkTx {
  t_id : N; t_ethsig : bool; t_para : bool; t_from : N; t_nonce : Z; t_expires : list Z }.

(** mempool.Item: the transaction and its EnterTime (seconds) *)
Record item := mkItem { i_tx : tx; i_enter : Z }.

(** what the walk reads besides the pool:
    [e_now]       types.Now().Unix()
    [e_interval]  mempoolExpiredInterval
    [e_height], [e_blocktime]  mem.header (0, 0 when no header was set yet)
    [e_fork_sort] height of ForkCheckEthTxSort
    [e_txh_on], [e_fork_txh]  cfg.IsEnable("TxHeight"), height of ForkTxHeight *)
Record env := mkEnv {
  e_now : Z; e_interval : Z; e_height : Z; e_blocktime : Z;
  e_fork_sort : Z; e_txh_on : bool; e_fork_txh : Z }.

(** Forks.IsFork *)
Definition is_fork (h f : Z) : bool := (h =? -1) || (f <=? h).

Definition expire_bound : Z := 1000000000.
Definition txheight_flag : Z := 4611686018427387904.   (* 1 << 62 *)
Definition low_allow : Z := 200.
Definition high_allow : Z := 600.

(** types.GetTxHeight on a main-chain configuration *)
Definition get_tx_height (e : env) (valid height : Z) : Z :=
  if e_txh_on e && is_fork height (e_fork_txh e) && (valid >? txheight_flag)
  then valid - txheight_flag else -1.

(** Transaction.isExpire *)
Definition is_expire1 (e : env) (valid height blocktime : Z) : bool :=
  if valid =? 0 then false
  else if valid <=? expire_bound then valid <=? height
  else
    let th := get_tx_height e valid height in
    if th >? 0 then negb ((th - low_allow <=? height) && (height <=? th + high_allow))
    else valid <=? blocktime.

(** Transaction.IsExpire (group: any member) *)
Definition tx_is_expire (e : env) (t : tx) (height blocktime : Z) : bool :=
  existsb (fun v => is_expire1 e v height blocktime) (t_expires t).

(** mempool.isExpired: pool age first, then the transaction's own expiry *)
Definition is_expired (e : env) (it : item) (height blocktime : Z) : bool :=
  (e_now e - i_enter it >=? e_interval e) || tx_is_expire e (i_tx it) height blocktime.

Definition mem_n (x : N) (l : list N) : bool := existsb (N.eqb x) l.

(** the callback of mem.cache.Walk in filterTxList; [n] = len(txs) so far *)
Fixpoint walk (e : env) (height blocktime count : Z) (excl : list N) (isAll : bool)
         (pool : list item) (n : Z) : list tx :=
  match pool with
  | [] => []
  | it :: tl =>
      if mem_n (t_id (i_tx it)) excl then walk e height blocktime count excl isAll tl n
      else if is_expired e it height blocktime && negb isAll
           then walk e height blocktime count excl isAll tl n
      else i_tx it ::
           (if (count >? 0) && (n + 1 =? count) then []
            else walk e height blocktime count excl isAll tl (n + 1))
  end.

(** next block's height, last block's time *)
Definition filter_walk (e : env) (count : Z) (excl : list N) (isAll : bool) (pool : list item) : list tx :=
  walk e (e_height e + 1) (e_blocktime e) count excl isAll pool 0.

(** ** sortEthSignTyTx *)
Definition is_eth (t : tx) : bool := t_ethsig t && negb (t_para t).

(** Go maps as association lists (insertion with overwrite) *)
Fixpoint aget {K V : Type} (eqb : K -> K -> bool) (k : K) (m : list (K * V)) : option V :=
  match m with
  | [] => None
  | (k', v) :: tl => if eqb k' k then Some v else aget eqb k tl
  end.

Fixpoint aput {K V : Type} (eqb : K -> K -> bool) (k : K) (v : V) (m : list (K * V)) : list (K * V) :=
  match m with
  | [] => [(k, v)]
  | (k', v') :: tl => if eqb k' k then (k, v) :: tl else (k', v') :: aput eqb k v tl
  end.

Definition nmap := list (Z * tx).          (* nonce -> tx *)
Definition smap := list (N * nmap).        (* from  -> nonce -> tx *)

(** ethsignTxs[tx.From()][tx.GetNonce()] = tx *)
Definition add_eth (m : smap) (t : tx) : smap :=
  let nm := match aget N.eqb (t_from t) m with Some nm => nm | None => [] end in
  aput N.eqb (t_from t) (aput Z.eqb (t_nonce t) t nm) m.

Definition eth_map (txs : list tx) : smap :=
  fold_left (fun m t => if is_eth t then add_eth m t else m) txs [].

Definition non_eth (txs : list tx) : list tx := filter (fun t => negb (is_eth t)) txs.

(** for nonce := currentNonce; ; nonce++ { if tx, ok := txs[nonce]; ok {append} else {break} }
    Fuel = number of keys of the map: after that many hits every key has been
    visited (C23.ProofsRun shows the loop never needs more). *)
Fixpoint run (nm : nmap) (cur : Z) (fuel : nat) : list tx :=
  match fuel with
  | O => []
  | S f =>
      match aget Z.eqb cur nm with
      | Some t => t :: run nm (wrap64 (cur + 1)) f
      | None => []
      end
  end.

Definition sender_run (m : smap) (nonce_of : N -> Z) (s : N) : list tx :=
  match aget N.eqb s m with
  | Some nm => run nm (nonce_of s) (length nm)
  | None => []
  end.

(** the keys of ethsignTxs; Go visits them in an arbitrary order [perm] *)
Definition sender_keys (txs : list tx) : list N := map fst (eth_map txs).

Definition sort_eth (nonce_of : N -> Z) (perm : list N) (txs : list tx) : list tx :=
  let merge := non_eth txs in
  if Nat.eqb (length merge) (length txs) then txs
  else merge ++ flat_map (sender_run (eth_map txs) nonce_of) perm.

(** ** filterTxList / getTxList / the two event handlers *)
Definition sort_active (e : env) : bool := is_fork (e_height e) (e_fork_sort e).

Definition filter_tx_list (e : env) (nonce_of : N -> Z) (perm : list N)
           (count : Z) (excl : list N) (isAll : bool) (pool : list item) : list tx :=
  let txs := filter_walk e count excl isAll pool in
  if sort_active e then sort_eth nonce_of perm txs else txs.

(** the senders whose nonce is requested from the rpc module (as a set) *)
Definition asked_keys (e : env) (count : Z) (excl : list N) (isAll : bool) (pool : list item) : list N :=
  let txs := filter_walk e count excl isAll pool in
  if sort_active e then sender_keys txs else [].

Definition get_tx_list (e : env) (nonce_of : N -> Z) (perm : list N)
           (count : Z) (excl : list N) (pool : list item) : list tx :=
  filter_tx_list e nonce_of perm count excl false pool.

Inductive reply := RErr | RList (l : list tx).

(** eventTxList: Count <= 0 is answered with ErrSize *)
Definition event_tx_list (e : env) (nonce_of : N -> Z) (perm : list N)
           (count : Z) (excl : list N) (pool : list item) : reply :=
  if count <=? 0 then RErr else RList (get_tx_list e nonce_of perm count excl pool).

(** eventGetMempool: filterTxList(0, nil, isAll) *)
Definition event_get_mempool (e : env) (nonce_of : N -> Z) (perm : list N)
           (isAll : bool) (pool : list item) : list tx :=
  filter_tx_list e nonce_of perm 0 [] isAll pool.

(** getCurrentNonce: the rpc module's answer; anything but a well-typed answer
    in time counts as nonce 0 *)
Inductive nreply := NRep (n : Z) | NErr | NBadType | NTimeout.
Definition current_nonce (r : nreply) : Z :=
  match r with NRep n => n | _ => 0 end.
