(** C23 — the property as an executable oracle over what the implementation
    returned (a list of transaction hashes, here ids), independent of the model
    of the walk and of the nonce sort.  It only uses the pool contents, the
    request, the expiry predicate and the nonce answers. *)
From Coq Require Import List ZArith NArith Bool.
From C33 Require Import C23.Model.
Import ListNotations.
Open Scope Z_scope.

Fixpoint find_item (id : N) (pool : list item) : option item :=
  match pool with
  | [] => None
  | it :: tl => if N.eqb (t_id (i_tx it)) id then Some it else find_item id tl
  end.

(** every returned hash names a pooled transaction *)
Fixpoint resolve (pool : list item) (res : list N) : option (list item) :=
  match res with
  | [] => Some []
  | id :: tl =>
      match find_item id pool, resolve pool tl with
      | Some it, Some r => Some (it :: r)
      | _, _ => None
      end
  end.

Fixpoint nodupb (l : list N) : bool :=
  match l with
  | [] => true
  | x :: tl => negb (mem_n x tl) && nodupb tl
  end.

(** [a] is a subsequence of [b] (greedy matching) *)
Fixpoint subseqb (a b : list N) : bool :=
  match b with
  | [] => match a with [] => true | _ => false end
  | y :: b' =>
      match a with
      | [] => true
      | x :: a' => if N.eqb x y then subseqb a' b' else subseqb a b'
      end
  end.

(** nonces [cur, cur+1, ...] in int64 arithmetic *)
Fixpoint consecb (cur : Z) (l : list Z) : bool :=
  match l with
  | [] => true
  | n :: tl => (n =? cur) && consecb (wrap64 (cur + 1)) tl
  end.

Definition eth_of (s : N) (l : list tx) : list tx :=
  filter (fun t => is_eth t && N.eqb (t_from t) s) l.

Record request := mkReq {
  r_count : Z;         (* <= 0: no bound *)
  r_excl : list N;
  r_all : bool }.      (* EventGetMempool with IsAll: expired entries are listed too *)

Definition spec_list (e : env) (nonce_of : N -> Z) (rq : request) (pool : list item) (res : list N) : bool :=
  match resolve pool res with
  | None => false
  | Some its =>
      let txs := map i_tx its in
      (* at most the requested number *)
      ((r_count rq <=? 0) || (Z.of_nat (length res) <=? r_count rq))
      (* no duplicates *)
      && nodupb res
      (* none of the excluded hashes *)
      && forallb (fun id => negb (mem_n id (r_excl rq))) res
      (* none expired for the next block (height + 1, last block time, pool age) *)
      && (r_all rq || forallb (fun it => negb (is_expired e it (e_height e + 1) (e_blocktime e))) its)
      && (if sort_active e then
            (* the others keep their arrival order *)
            subseqb (map t_id (non_eth txs)) (map (fun it => t_id (i_tx it)) pool)
            (* every eth sender: consecutive nonces from the sender's current nonce *)
            && forallb (fun t => negb (is_eth t)
                                 || consecb (nonce_of (t_from t)) (map t_nonce (eth_of (t_from t) txs))) txs
          else
            (* before ForkCheckEthTxSort nothing is reordered *)
            subseqb res (map (fun it => t_id (i_tx it)) pool))
  end.

(** the reply of EventTxList: an error reply hands out nothing *)
Definition spec_reply (e : env) (nonce_of : N -> Z) (rq : request) (pool : list item)
           (res : option (list N)) : bool :=
  match res with
  | None => true
  | Some l => spec_list e nonce_of rq pool l
  end.
